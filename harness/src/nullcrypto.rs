//! Deterministic "plaintext + MAC" implementation of quinn-proto's public `crypto` traits.
//!
//! Payload and header stay in the clear, a 16-byte keyed hash plays the AEAD tag, header
//! protection is the identity. Packet sizes equal those of the real TLS lane (tag 16, sample 16).
//! The handshake is a 3-flight exchange carrying the transport parameters:
//!
//!   client  Initial   : 'C' { client_random, ticket?, transport params }
//!   server  Initial   : 'S' { server_random }                      -> Handshake keys
//!   server  Handshake : 'E' { early_accepted, transport params }, 'F' {}  -> 1-RTT keys
//!   client  Handshake : 'F' {}                                     -> 1-RTT keys
//!   server  1-RTT     : 'T' { ticket }   (optional, like a NewSessionTicket)
//!
//! Every message is `tag(1) | len(u32 BE) | body`.

use std::{
    any::Any,
    sync::{
        atomic::{AtomicU64, Ordering},
        Arc, Mutex,
    },
};

use bytes::BytesMut;
use proto::{
    crypto::{
        self, AeadKey, CryptoError, ExportKeyingMaterialError, HandshakeTokenKey, HeaderKey,
        HmacKey, KeyPair, Keys, PacketKey, Session, UnsupportedVersion,
    },
    transport_parameters::TransportParameters,
    ConnectError, ConnectionId, Side, TransportError, TransportErrorCode,
};

use crate::util::{hash64, mac128};

pub const TAG_LEN: usize = 16;

// ---------------------------------------------------------------------------------------------
// Keys
// ---------------------------------------------------------------------------------------------

#[derive(Clone, Copy, Debug, PartialEq, Eq)]
pub struct NullPacketKey {
    pub secret: u64,
}

impl NullPacketKey {
    pub fn tag(&self, pn: u64, header: &[u8], payload: &[u8]) -> [u8; 16] {
        mac128(self.secret, &[&pn.to_le_bytes(), header, payload])
    }
    /// Seal `buf` (header + payload + 16 spare bytes) in place.
    pub fn seal(&self, pn: u64, buf: &mut [u8], header_len: usize) {
        let n = buf.len() - TAG_LEN;
        let tag = {
            let (hdr, rest) = buf.split_at(header_len);
            self.tag(pn, hdr, &rest[..n - header_len])
        };
        buf[n..].copy_from_slice(&tag);
    }
}

impl PacketKey for NullPacketKey {
    fn encrypt(&self, packet: u64, buf: &mut [u8], header_len: usize) {
        self.seal(packet, buf, header_len)
    }
    fn decrypt(&self, packet: u64, header: &[u8], payload: &mut BytesMut) -> Result<(), CryptoError> {
        if payload.len() < TAG_LEN {
            return Err(CryptoError);
        }
        let n = payload.len() - TAG_LEN;
        let tag = self.tag(packet, header, &payload[..n]);
        if tag[..] != payload[n..] {
            return Err(CryptoError);
        }
        payload.truncate(n);
        Ok(())
    }
    fn tag_len(&self) -> usize {
        TAG_LEN
    }
    fn confidentiality_limit(&self) -> u64 {
        CONF_LIMIT.load(Ordering::Relaxed)
    }
    fn integrity_limit(&self) -> u64 {
        INTEG_LIMIT.load(Ordering::Relaxed)
    }
}

/// Process-wide knobs so workloads can force automatic key updates / integrity-limit closes.
pub static CONF_LIMIT: AtomicU64 = AtomicU64::new(1 << 23);
pub static INTEG_LIMIT: AtomicU64 = AtomicU64::new(1 << 36);

pub struct NullHeaderKey;

impl HeaderKey for NullHeaderKey {
    fn decrypt(&self, _pn_offset: usize, _packet: &mut [u8]) {}
    fn encrypt(&self, _pn_offset: usize, _packet: &mut [u8]) {}
    fn sample_size(&self) -> usize {
        16
    }
}

fn dir_of(side: Side, local: bool) -> u8 {
    // 0 = client->server, 1 = server->client
    match (side, local) {
        (Side::Client, true) | (Side::Server, false) => 0,
        _ => 1,
    }
}

pub fn initial_secret(dst_cid: &ConnectionId, dir: u8) -> u64 {
    hash64(0x1111, &[b"initial", dst_cid, &[dir]])
}
pub fn handshake_secret(cr: u64, sr: u64, dir: u8) -> u64 {
    hash64(0x2222, &[b"hs", &cr.to_le_bytes(), &sr.to_le_bytes(), &[dir]])
}
pub fn zero_rtt_secret(cr: u64, ticket: u64) -> u64 {
    hash64(0x3333, &[b"0rtt", &cr.to_le_bytes(), &ticket.to_le_bytes()])
}
pub fn one_rtt_secret(cr: u64, sr: u64, generation: u64, dir: u8) -> u64 {
    hash64(
        0x4444,
        &[b"1rtt", &cr.to_le_bytes(), &sr.to_le_bytes(), &generation.to_le_bytes(), &[dir]],
    )
}

fn keys_from(local: u64, remote: u64) -> Keys {
    Keys {
        header: KeyPair { local: Box::new(NullHeaderKey), remote: Box::new(NullHeaderKey) },
        packet: KeyPair {
            local: Box::new(NullPacketKey { secret: local }),
            remote: Box::new(NullPacketKey { secret: remote }),
        },
    }
}

pub fn initial_keys(dst_cid: &ConnectionId, side: Side) -> Keys {
    keys_from(
        initial_secret(dst_cid, dir_of(side, true)),
        initial_secret(dst_cid, dir_of(side, false)),
    )
}

pub fn retry_tag(orig_dst_cid: &ConnectionId, packet: &[u8]) -> [u8; 16] {
    mac128(0x5555, &[b"retry", orig_dst_cid, packet])
}

// ---------------------------------------------------------------------------------------------
// Shared knobs / observation
// ---------------------------------------------------------------------------------------------

/// What the null TLS layer remembers for resumption ("session ticket").
#[derive(Clone, Debug)]
pub struct Ticket {
    pub id: u64,
    /// Server transport parameters as remembered by the client (encoded).
    pub server_params: Vec<u8>,
}

/// Secrets of one finished (or in-progress) session, published for the harness's hostile peer
/// and wire decoder.
#[derive(Clone, Copy, Debug, Default)]
pub struct SessionSecrets {
    pub client_random: u64,
    pub server_random: u64,
}

pub type ParamRewrite = Arc<dyn Fn(Side, Vec<u8>) -> Vec<u8> + Send + Sync>;

/// Knobs shared between the harness and all sessions created from one config.
#[derive(Default)]
pub struct NullShared {
    pub counter: AtomicU64,
    /// Ticket offered by the next client session (client side), stored by finished sessions.
    pub ticket: Mutex<Option<Ticket>>,
    /// Server: accept early data when a ticket it issued is offered?
    pub accept_early: Mutex<bool>,
    /// Server: send a ticket in a 1-RTT CRYPTO frame after the handshake.
    pub issue_tickets: Mutex<bool>,
    /// Server: tickets issued so far.
    pub issued: Mutex<Vec<u64>>,
    /// Optional rewrite of the *encoded local transport parameters* before they are sent
    /// (hostile-peer experiments).
    pub rewrite: Mutex<Option<ParamRewrite>>,
    pub secrets: Mutex<Vec<SessionSecrets>>,
}

impl NullShared {
    pub fn new(seed: u64) -> Arc<Self> {
        let s = Self::default();
        s.counter.store(seed.wrapping_mul(0x9E37_79B9_7F4A_7C15) | 1, Ordering::Relaxed);
        *s.issue_tickets.lock().unwrap() = true;
        *s.accept_early.lock().unwrap() = true;
        Arc::new(s)
    }
    fn next_random(&self) -> u64 {
        let mut c = self.counter.fetch_add(0x9E37_79B9_7F4A_7C15, Ordering::Relaxed);
        crate::util::splitmix(&mut c)
    }
}

// ---------------------------------------------------------------------------------------------
// Configs
// ---------------------------------------------------------------------------------------------

pub struct NullClientConfig {
    pub shared: Arc<NullShared>,
}

impl crypto::ClientConfig for NullClientConfig {
    fn start_session(
        self: Arc<Self>,
        _version: u32,
        _server_name: &str,
        params: &TransportParameters,
    ) -> Result<Box<dyn Session>, ConnectError> {
        let mut enc = Vec::new();
        params.write(&mut enc);
        if let Some(rw) = self.shared.rewrite.lock().unwrap().as_ref() {
            enc = rw(Side::Client, enc);
        }
        let ticket = self.shared.ticket.lock().unwrap().clone();
        Ok(Box::new(NullSession {
            side: Side::Client,
            shared: self.shared.clone(),
            local_params: enc,
            peer_params: ticket.as_ref().map(|t| t.server_params.clone()),
            ticket,
            cr: self.shared.next_random(),
            sr: 0,
            inbuf: Vec::new(),
            stage: 0,
            got_data: false,
            handshaking: true,
            early_accepted: None,
            server_early: None,
            generation: 0,
            have_1rtt: false,
        }))
    }
}

pub struct NullServerConfig {
    pub shared: Arc<NullShared>,
}

impl crypto::ServerConfig for NullServerConfig {
    fn initial_keys(&self, _version: u32, dst_cid: ConnectionId) -> Result<Keys, UnsupportedVersion> {
        Ok(initial_keys(&dst_cid, Side::Server))
    }
    fn retry_tag(&self, _version: u32, orig_dst_cid: ConnectionId, packet: &[u8]) -> [u8; 16] {
        retry_tag(&orig_dst_cid, packet)
    }
    fn start_session(self: Arc<Self>, _version: u32, params: &TransportParameters) -> Box<dyn Session> {
        let mut enc = Vec::new();
        params.write(&mut enc);
        if let Some(rw) = self.shared.rewrite.lock().unwrap().as_ref() {
            enc = rw(Side::Server, enc);
        }
        Box::new(NullSession {
            side: Side::Server,
            shared: self.shared.clone(),
            local_params: enc,
            peer_params: None,
            ticket: None,
            cr: 0,
            sr: self.shared.next_random(),
            inbuf: Vec::new(),
            stage: 0,
            got_data: false,
            handshaking: true,
            early_accepted: None,
            server_early: None,
            generation: 0,
            have_1rtt: false,
        })
    }
}

// ---------------------------------------------------------------------------------------------
// Session
// ---------------------------------------------------------------------------------------------

pub struct NullSession {
    side: Side,
    shared: Arc<NullShared>,
    local_params: Vec<u8>,
    peer_params: Option<Vec<u8>>,
    ticket: Option<Ticket>,
    cr: u64,
    sr: u64,
    inbuf: Vec<u8>,
    /// Client: 0 = nothing sent, 1 = C sent, 2 = S read (hs keys pending), 3 = hs keys given,
    ///         4 = E,F read (F + 1rtt pending), 5 = done.
    /// Server: 0 = waiting C, 1 = C read (S pending), 2 = S sent (E,F pending), 3 = E,F sent,
    ///         4 = client F read (ticket pending), 5 = done.
    stage: u8,
    got_data: bool,
    handshaking: bool,
    early_accepted: Option<bool>,
    /// Server: 0-RTT secret if early data is accepted.
    server_early: Option<u64>,
    generation: u64,
    have_1rtt: bool,
}

fn msg(tag: u8, body: &[u8], out: &mut Vec<u8>) {
    out.push(tag);
    out.extend_from_slice(&(body.len() as u32).to_be_bytes());
    out.extend_from_slice(body);
}

fn perr(s: &str) -> TransportError {
    TransportError::new(TransportErrorCode::PROTOCOL_VIOLATION, format!("null-tls: {s}"))
}

impl NullSession {
    fn keys(&self, local: u64, remote: u64) -> Keys {
        keys_from(local, remote)
    }
    fn hs_keys(&self) -> Keys {
        self.keys(
            handshake_secret(self.cr, self.sr, dir_of(self.side, true)),
            handshake_secret(self.cr, self.sr, dir_of(self.side, false)),
        )
    }
    fn data_keys(&self, generation: u64) -> KeyPair<Box<dyn PacketKey>> {
        KeyPair {
            local: Box::new(NullPacketKey {
                secret: one_rtt_secret(self.cr, self.sr, generation, dir_of(self.side, true)),
            }),
            remote: Box::new(NullPacketKey {
                secret: one_rtt_secret(self.cr, self.sr, generation, dir_of(self.side, false)),
            }),
        }
    }
    fn publish(&self) {
        self.shared
            .secrets
            .lock()
            .unwrap()
            .push(SessionSecrets { client_random: self.cr, server_random: self.sr });
    }

    fn handle_msg(&mut self, tag: u8, body: &[u8]) -> Result<bool, TransportError> {
        let mut fresh = false;
        match (self.side, tag) {
            (Side::Server, b'C') => {
                if self.stage != 0 || body.len() < 9 {
                    return Err(perr("unexpected C"));
                }
                self.cr = u64::from_le_bytes(body[..8].try_into().unwrap());
                let has_ticket = body[8] != 0;
                let mut rest = &body[9..];
                if has_ticket {
                    if rest.len() < 8 {
                        return Err(perr("short ticket"));
                    }
                    let id = u64::from_le_bytes(rest[..8].try_into().unwrap());
                    rest = &rest[8..];
                    let known = self.shared.issued.lock().unwrap().contains(&id);
                    if known && *self.shared.accept_early.lock().unwrap() {
                        self.server_early = Some(zero_rtt_secret(self.cr, id));
                    }
                }
                self.peer_params = Some(rest.to_vec());
                self.stage = 1;
                self.got_data = true;
                fresh = true;
            }
            (Side::Server, b'F') => {
                if self.stage != 3 {
                    return Err(perr("unexpected F"));
                }
                self.stage = 4;
                self.handshaking = false;
                self.publish();
            }
            (Side::Client, b'S') => {
                if self.stage != 1 || body.len() != 8 {
                    return Err(perr("unexpected S"));
                }
                self.sr = u64::from_le_bytes(body.try_into().unwrap());
                self.stage = 2;
            }
            (Side::Client, b'E') => {
                if self.stage != 3 || body.is_empty() {
                    return Err(perr("unexpected E"));
                }
                self.early_accepted = Some(body[0] != 0 && self.ticket.is_some());
                self.peer_params = Some(body[1..].to_vec());
                self.got_data = true;
                fresh = true;
            }
            (Side::Client, b'F') => {
                if self.stage != 3 || self.early_accepted.is_none() {
                    return Err(perr("unexpected F"));
                }
                self.stage = 4;
            }
            (Side::Client, b'T') => {
                if self.stage < 5 || body.len() != 8 {
                    return Err(perr("unexpected T"));
                }
                let id = u64::from_le_bytes(body.try_into().unwrap());
                *self.shared.ticket.lock().unwrap() = Some(Ticket {
                    id,
                    server_params: self.peer_params.clone().unwrap_or_default(),
                });
            }
            _ => return Err(perr("unknown handshake message")),
        }
        Ok(fresh)
    }
}

impl Session for NullSession {
    fn initial_keys(&self, dst_cid: ConnectionId, side: Side) -> Keys {
        initial_keys(&dst_cid, side)
    }
    fn handshake_data(&self) -> Option<Box<dyn Any>> {
        if self.got_data {
            Some(Box::new(()))
        } else {
            None
        }
    }
    fn peer_identity(&self) -> Option<Box<dyn Any>> {
        None
    }
    fn early_crypto(&self) -> Option<(Box<dyn HeaderKey>, Box<dyn PacketKey>)> {
        let secret = match self.side {
            Side::Client => zero_rtt_secret(self.cr, self.ticket.as_ref()?.id),
            Side::Server => self.server_early?,
        };
        Some((Box::new(NullHeaderKey), Box::new(NullPacketKey { secret })))
    }
    fn early_data_accepted(&self) -> Option<bool> {
        match self.side {
            Side::Client => Some(self.early_accepted.unwrap_or(false)),
            Side::Server => None,
        }
    }
    fn is_handshaking(&self) -> bool {
        self.handshaking
    }
    fn read_handshake(&mut self, buf: &[u8]) -> Result<bool, TransportError> {
        self.inbuf.extend_from_slice(buf);
        let mut fresh = false;
        loop {
            if self.inbuf.len() < 5 {
                break;
            }
            let len = u32::from_be_bytes(self.inbuf[1..5].try_into().unwrap()) as usize;
            if len > 1 << 20 {
                return Err(perr("oversized handshake message"));
            }
            if self.inbuf.len() < 5 + len {
                break;
            }
            let tag = self.inbuf[0];
            let body: Vec<u8> = self.inbuf[5..5 + len].to_vec();
            self.inbuf.drain(..5 + len);
            fresh |= self.handle_msg(tag, &body)?;
        }
        Ok(fresh)
    }
    fn transport_parameters(&self) -> Result<Option<TransportParameters>, TransportError> {
        match &self.peer_params {
            None => Ok(None),
            Some(enc) => match TransportParameters::read(self.side, &mut &enc[..]) {
                Ok(p) => Ok(Some(p)),
                Err(e) => Err(e.into()),
            },
        }
    }
    fn write_handshake(&mut self, buf: &mut Vec<u8>) -> Option<Keys> {
        match (self.side, self.stage) {
            (Side::Client, 0) => {
                let mut body = Vec::new();
                body.extend_from_slice(&self.cr.to_le_bytes());
                match &self.ticket {
                    Some(t) => {
                        body.push(1);
                        body.extend_from_slice(&t.id.to_le_bytes());
                    }
                    None => body.push(0),
                }
                body.extend_from_slice(&self.local_params);
                msg(b'C', &body, buf);
                self.stage = 1;
                None
            }
            (Side::Client, 2) => {
                self.stage = 3;
                Some(self.hs_keys())
            }
            (Side::Client, 4) => {
                msg(b'F', &[], buf);
                self.stage = 5;
                self.handshaking = false;
                self.have_1rtt = true;
                self.publish();
                let kp = self.data_keys(0);
                Some(Keys {
                    header: KeyPair { local: Box::new(NullHeaderKey), remote: Box::new(NullHeaderKey) },
                    packet: kp,
                })
            }
            (Side::Server, 1) => {
                msg(b'S', &self.sr.to_le_bytes(), buf);
                self.stage = 2;
                Some(self.hs_keys())
            }
            (Side::Server, 2) => {
                let mut body = vec![self.server_early.is_some() as u8];
                body.extend_from_slice(&self.local_params);
                msg(b'E', &body, buf);
                msg(b'F', &[], buf);
                self.stage = 3;
                self.have_1rtt = true;
                let kp = self.data_keys(0);
                Some(Keys {
                    header: KeyPair { local: Box::new(NullHeaderKey), remote: Box::new(NullHeaderKey) },
                    packet: kp,
                })
            }
            (Side::Server, 4) => {
                self.stage = 5;
                if *self.shared.issue_tickets.lock().unwrap() {
                    let id = self.shared.next_random();
                    self.shared.issued.lock().unwrap().push(id);
                    msg(b'T', &id.to_le_bytes(), buf);
                }
                None
            }
            _ => None,
        }
    }
    fn next_1rtt_keys(&mut self) -> Option<KeyPair<Box<dyn PacketKey>>> {
        if !self.have_1rtt {
            return None;
        }
        self.generation += 1;
        Some(self.data_keys(self.generation))
    }
    fn is_valid_retry(&self, orig_dst_cid: ConnectionId, header: &[u8], payload: &[u8]) -> bool {
        let Some(n) = payload.len().checked_sub(16) else {
            return false;
        };
        let mut pkt = header.to_vec();
        pkt.extend_from_slice(&payload[..n]);
        retry_tag(&orig_dst_cid, &pkt)[..] == payload[n..]
    }
    fn export_keying_material(
        &self,
        output: &mut [u8],
        label: &[u8],
        context: &[u8],
    ) -> Result<(), ExportKeyingMaterialError> {
        if output.len() > 1024 {
            return Err(ExportKeyingMaterialError);
        }
        for (i, c) in output.chunks_mut(16).enumerate() {
            let h = mac128(self.cr ^ self.sr, &[label, context, &(i as u64).to_le_bytes()]);
            c.copy_from_slice(&h[..c.len()]);
        }
        Ok(())
    }
}

// ---------------------------------------------------------------------------------------------
// HMAC / token keys (so that quinn-proto can be used without ring, e.g. under Miri)
// ---------------------------------------------------------------------------------------------

pub struct NullHmacKey(pub u64);

impl HmacKey for NullHmacKey {
    fn sign(&self, data: &[u8], signature_out: &mut [u8]) {
        let mut i = 0u64;
        for c in signature_out.chunks_mut(16) {
            let h = mac128(self.0, &[data, &i.to_le_bytes()]);
            c.copy_from_slice(&h[..c.len()]);
            i += 1;
        }
    }
    fn signature_len(&self) -> usize {
        32
    }
    fn verify(&self, data: &[u8], signature: &[u8]) -> Result<(), CryptoError> {
        let mut exp = vec![0u8; signature.len()];
        self.sign(data, &mut exp);
        if exp == signature && signature.len() >= 16 {
            Ok(())
        } else {
            Err(CryptoError)
        }
    }
}

pub struct NullTokenKey(pub u64);

impl HandshakeTokenKey for NullTokenKey {
    fn aead_from_hkdf(&self, random_bytes: &[u8]) -> Box<dyn AeadKey> {
        Box::new(NullAead(hash64(self.0, &[b"token", random_bytes])))
    }
}

pub struct NullAead(u64);

impl NullAead {
    fn stream(&self, data: &mut [u8]) {
        for (i, c) in data.chunks_mut(16).enumerate() {
            let ks = mac128(self.0, &[b"ks", &(i as u64).to_le_bytes()]);
            for (b, k) in c.iter_mut().zip(ks.iter()) {
                *b ^= k;
            }
        }
    }
}

impl AeadKey for NullAead {
    fn seal(&self, data: &mut Vec<u8>, additional_data: &[u8]) -> Result<(), CryptoError> {
        self.stream(data);
        let tag = mac128(self.0, &[additional_data, data]);
        data.extend_from_slice(&tag);
        Ok(())
    }
    fn open<'a>(&self, data: &'a mut [u8], additional_data: &[u8]) -> Result<&'a mut [u8], CryptoError> {
        let n = data.len().checked_sub(16).ok_or(CryptoError)?;
        let (body, tag) = data.split_at_mut(n);
        if mac128(self.0, &[additional_data, body])[..] != tag[..] {
            return Err(CryptoError);
        }
        self.stream(body);
        Ok(body)
    }
}
