//! qv: runtime-monitoring harness for quinn (see /verif/DESIGN.md)
pub mod alloc;
pub mod app;
pub mod cfg;
pub mod check;
pub mod mon;
pub mod nullcrypto;
pub mod scen;
#[cfg(feature = "real")]
pub mod realcrypto;
pub mod util;
pub mod wire;
pub mod world;
