//! Independent (harness-owned) QUIC wire codec: varints, headers, packet numbers and frames.
//!
//! It is the oracle side of C10's differential checks, the decoder behind every wire-level
//! monitor on the plaintext lane, and the encoder of hostile frames. It shares no code with
//! quinn-proto on purpose.

use std::fmt;

#[derive(Debug, Clone, PartialEq, Eq)]
pub enum WireError {
    Short,
    Malformed(&'static str),
}

pub type WResult<T> = Result<T, WireError>;

pub const VARINT_MAX: u64 = (1 << 62) - 1;

pub struct Rd<'a> {
    pub b: &'a [u8],
    pub p: usize,
}

impl<'a> Rd<'a> {
    pub fn new(b: &'a [u8]) -> Self {
        Self { b, p: 0 }
    }
    pub fn left(&self) -> usize {
        self.b.len() - self.p
    }
    pub fn u8(&mut self) -> WResult<u8> {
        let v = *self.b.get(self.p).ok_or(WireError::Short)?;
        self.p += 1;
        Ok(v)
    }
    pub fn take(&mut self, n: usize) -> WResult<&'a [u8]> {
        if self.left() < n {
            return Err(WireError::Short);
        }
        let s = &self.b[self.p..self.p + n];
        self.p += n;
        Ok(s)
    }
    pub fn u16(&mut self) -> WResult<u16> {
        Ok(u16::from_be_bytes(self.take(2)?.try_into().unwrap()))
    }
    pub fn u32(&mut self) -> WResult<u32> {
        Ok(u32::from_be_bytes(self.take(4)?.try_into().unwrap()))
    }
    pub fn u64(&mut self) -> WResult<u64> {
        Ok(u64::from_be_bytes(self.take(8)?.try_into().unwrap()))
    }
    pub fn var(&mut self) -> WResult<u64> {
        let first = self.u8()?;
        let len = 1usize << (first >> 6);
        let mut v = (first & 0x3f) as u64;
        for _ in 1..len {
            v = (v << 8) | self.u8()? as u64;
        }
        Ok(v)
    }
}

pub fn varint_len(v: u64) -> usize {
    if v < 1 << 6 {
        1
    } else if v < 1 << 14 {
        2
    } else if v < 1 << 30 {
        4
    } else {
        8
    }
}

pub fn put_var(out: &mut Vec<u8>, v: u64) {
    assert!(v <= VARINT_MAX);
    match varint_len(v) {
        1 => out.push(v as u8),
        2 => out.extend_from_slice(&((v as u16) | 0x4000).to_be_bytes()),
        4 => out.extend_from_slice(&((v as u32) | 0x8000_0000).to_be_bytes()),
        _ => out.extend_from_slice(&(v | 0xC000_0000_0000_0000).to_be_bytes()),
    }
}

/// Encode using a specific (possibly non-minimal) length; panics if it does not fit.
pub fn put_var_len(out: &mut Vec<u8>, v: u64, len: usize) {
    match len {
        1 => {
            assert!(v < 1 << 6);
            out.push(v as u8)
        }
        2 => {
            assert!(v < 1 << 14);
            out.extend_from_slice(&((v as u16) | 0x4000).to_be_bytes())
        }
        4 => {
            assert!(v < 1 << 30);
            out.extend_from_slice(&((v as u32) | 0x8000_0000).to_be_bytes())
        }
        8 => {
            assert!(v <= VARINT_MAX);
            out.extend_from_slice(&(v | 0xC000_0000_0000_0000).to_be_bytes())
        }
        _ => panic!("bad varint len"),
    }
}

// ---------------------------------------------------------------------------------------------
// Packet numbers (RFC 9000 A.2 / A.3)
// ---------------------------------------------------------------------------------------------

/// Number of bytes needed to encode `pn` given the largest acknowledged packet.
pub fn pn_len(pn: u64, largest_acked: Option<u64>) -> usize {
    let range = match largest_acked {
        Some(la) => (pn - la) * 2,
        None => (pn + 1) * 2,
    };
    if range < 1 << 8 {
        1
    } else if range < 1 << 16 {
        2
    } else if range < 1 << 24 {
        3
    } else if range < 1 << 32 {
        4
    } else {
        panic!("packet number too far ahead")
    }
}

pub fn pn_decode(expected: u64, truncated: u64, nbytes: usize) -> u64 {
    let nbits = nbytes as u32 * 8;
    let win = 1u64 << nbits;
    let hwin = win / 2;
    let mask = win - 1;
    let candidate = (expected & !mask) | truncated;
    if candidate.wrapping_add(hwin) <= expected && candidate < (1 << 62) - win {
        candidate + win
    } else if candidate > expected.wrapping_add(hwin) && candidate >= win {
        candidate - win
    } else {
        candidate
    }
}

// ---------------------------------------------------------------------------------------------
// Headers
// ---------------------------------------------------------------------------------------------

#[derive(Debug, Clone, Copy, PartialEq, Eq, Hash, PartialOrd, Ord)]
pub enum PType {
    Initial,
    ZeroRtt,
    Handshake,
    Retry,
    VersionNegotiation,
    Short,
}

impl PType {
    /// Packet number space index (0 Initial, 1 Handshake, 2 Data)
    pub fn space(self) -> Option<usize> {
        match self {
            PType::Initial => Some(0),
            PType::Handshake => Some(1),
            PType::ZeroRtt | PType::Short => Some(2),
            _ => None,
        }
    }
}

#[derive(Debug, Clone, PartialEq, Eq)]
pub struct Pkt {
    pub ty: PType,
    pub first: u8,
    pub version: u32,
    pub dcid: Vec<u8>,
    pub scid: Vec<u8>,
    pub token: Vec<u8>,
    /// Truncated packet number and its length (protected packets only)
    pub pn_trunc: u64,
    pub pn_len: usize,
    /// Offset of the packet number within the packet
    pub pn_off: usize,
    /// Total length of this packet within the datagram
    pub len: usize,
    /// Key phase bit (short header)
    pub key_phase: bool,
    pub spin: bool,
}

impl Pkt {
    pub fn header_len(&self) -> usize {
        self.pn_off + self.pn_len
    }
}

/// Split a datagram into its coalesced packets. Only valid on the identity-header-protection
/// (plaintext) lane for the packet-number fields; lengths and types are valid for any lane.
pub fn split_datagram(d: &[u8], short_dcid_len: usize) -> WResult<Vec<(Pkt, std::ops::Range<usize>)>> {
    let mut out = Vec::new();
    let mut off = 0;
    while off < d.len() {
        let p = parse_packet(&d[off..], short_dcid_len)?;
        let len = p.len;
        out.push((p, off..off + len));
        off += len;
        if off > d.len() {
            return Err(WireError::Malformed("packet length exceeds datagram"));
        }
    }
    Ok(out)
}

pub fn parse_packet(d: &[u8], short_dcid_len: usize) -> WResult<Pkt> {
    let mut r = Rd::new(d);
    let first = r.u8()?;
    if first & 0x80 == 0 {
        let dcid = r.take(short_dcid_len)?.to_vec();
        let pn_off = r.p;
        let pn_len = (first & 3) as usize + 1;
        let mut pn = 0u64;
        for _ in 0..pn_len {
            pn = (pn << 8) | r.u8()? as u64;
        }
        return Ok(Pkt {
            ty: PType::Short,
            first,
            version: 0,
            dcid,
            scid: vec![],
            token: vec![],
            pn_trunc: pn,
            pn_len,
            pn_off,
            len: d.len(),
            key_phase: first & 0x04 != 0,
            spin: first & 0x20 != 0,
        });
    }
    let version = r.u32()?;
    let dl = r.u8()? as usize;
    if dl > 20 && version != 0 {
        return Err(WireError::Malformed("dcid too long"));
    }
    let dcid = r.take(dl)?.to_vec();
    let sl = r.u8()? as usize;
    if sl > 20 && version != 0 {
        return Err(WireError::Malformed("scid too long"));
    }
    let scid = r.take(sl)?.to_vec();
    let mut pkt = Pkt {
        ty: PType::VersionNegotiation,
        first,
        version,
        dcid,
        scid,
        token: vec![],
        pn_trunc: 0,
        pn_len: 0,
        pn_off: 0,
        len: d.len(),
        key_phase: false,
        spin: false,
    };
    if version == 0 {
        return Ok(pkt);
    }
    pkt.ty = match (first >> 4) & 3 {
        0 => PType::Initial,
        1 => PType::ZeroRtt,
        2 => PType::Handshake,
        _ => PType::Retry,
    };
    if pkt.ty == PType::Retry {
        let rest = r.take(r.left())?;
        pkt.token = rest.to_vec();
        return Ok(pkt);
    }
    if pkt.ty == PType::Initial {
        let tl = r.var()? as usize;
        pkt.token = r.take(tl)?.to_vec();
    }
    let len = r.var()? as usize;
    pkt.pn_off = r.p;
    if r.left() < len {
        return Err(WireError::Short);
    }
    pkt.pn_len = (first & 3) as usize + 1;
    if len < pkt.pn_len {
        return Err(WireError::Malformed("length shorter than pn"));
    }
    let mut pn = 0u64;
    for _ in 0..pkt.pn_len {
        pn = (pn << 8) | r.u8()? as u64;
    }
    pkt.pn_trunc = pn;
    pkt.len = pkt.pn_off + len;
    Ok(pkt)
}

/// Cheap classification that works on any crypto lane: (type, total packet length) of each
/// coalesced packet using only unprotected header fields.
pub fn split_types(d: &[u8]) -> Vec<(PType, usize)> {
    let mut out = Vec::new();
    let mut off = 0;
    while off < d.len() {
        let b = &d[off..];
        if b[0] & 0x80 == 0 {
            out.push((PType::Short, b.len()));
            break;
        }
        let mut r = Rd::new(b);
        let parsed = (|| -> WResult<(PType, usize)> {
            let first = r.u8()?;
            let version = r.u32()?;
            let dl = r.u8()? as usize;
            r.take(dl)?;
            let sl = r.u8()? as usize;
            r.take(sl)?;
            if version == 0 {
                return Ok((PType::VersionNegotiation, b.len()));
            }
            let ty = match (first >> 4) & 3 {
                0 => PType::Initial,
                1 => PType::ZeroRtt,
                2 => PType::Handshake,
                _ => return Ok((PType::Retry, b.len())),
            };
            if ty == PType::Initial {
                let tl = r.var()? as usize;
                r.take(tl)?;
            }
            let len = r.var()? as usize;
            if r.left() < len {
                return Err(WireError::Short);
            }
            Ok((ty, r.p + len))
        })();
        match parsed {
            Ok((ty, len)) => {
                out.push((ty, len));
                off += len;
            }
            Err(_) => break,
        }
    }
    out
}

// ---------------------------------------------------------------------------------------------
// Frames
// ---------------------------------------------------------------------------------------------

#[derive(Clone, PartialEq, Eq)]
pub enum Frame {
    Padding(usize),
    Ping,
    Ack { largest: u64, delay: u64, ranges: Vec<(u64, u64)>, ecn: Option<(u64, u64, u64)> },
    ResetStream { id: u64, code: u64, final_size: u64 },
    StopSending { id: u64, code: u64 },
    Crypto { off: u64, data: Vec<u8> },
    NewToken { token: Vec<u8> },
    Stream { id: u64, off: u64, fin: bool, data: Vec<u8>, explicit_len: bool, explicit_off: bool },
    MaxData(u64),
    MaxStreamData { id: u64, max: u64 },
    MaxStreams { bidi: bool, max: u64 },
    DataBlocked(u64),
    StreamDataBlocked { id: u64, limit: u64 },
    StreamsBlocked { bidi: bool, limit: u64 },
    NewConnectionId { seq: u64, retire_prior_to: u64, cid: Vec<u8>, token: [u8; 16] },
    RetireConnectionId { seq: u64 },
    PathChallenge(u64),
    PathResponse(u64),
    ConnectionClose { code: u64, frame_type: u64, reason: Vec<u8> },
    ApplicationClose { code: u64, reason: Vec<u8> },
    HandshakeDone,
    Datagram { data: Vec<u8>, explicit_len: bool },
    AckFrequency { seq: u64, threshold: u64, max_ack_delay: u64, reordering: u64 },
    ImmediateAck,
}

impl fmt::Debug for Frame {
    fn fmt(&self, f: &mut fmt::Formatter<'_>) -> fmt::Result {
        use Frame::*;
        match self {
            Padding(n) => write!(f, "PADDING*{n}"),
            Ping => write!(f, "PING"),
            Ack { largest, delay, ranges, ecn } => {
                write!(f, "ACK(largest={largest},delay={delay},ranges={ranges:?},ecn={ecn:?})")
            }
            ResetStream { id, code, final_size } => write!(f, "RESET_STREAM(id={id},code={code},final={final_size})"),
            StopSending { id, code } => write!(f, "STOP_SENDING(id={id},code={code})"),
            Crypto { off, data } => write!(f, "CRYPTO(off={off},len={})", data.len()),
            NewToken { token } => write!(f, "NEW_TOKEN(len={})", token.len()),
            Stream { id, off, fin, data, .. } => write!(f, "STREAM(id={id},off={off},len={},fin={fin})", data.len()),
            MaxData(v) => write!(f, "MAX_DATA({v})"),
            MaxStreamData { id, max } => write!(f, "MAX_STREAM_DATA(id={id},{max})"),
            MaxStreams { bidi, max } => write!(f, "MAX_STREAMS({},{max})", if *bidi { "bidi" } else { "uni" }),
            DataBlocked(v) => write!(f, "DATA_BLOCKED({v})"),
            StreamDataBlocked { id, limit } => write!(f, "STREAM_DATA_BLOCKED(id={id},{limit})"),
            StreamsBlocked { bidi, limit } => write!(f, "STREAMS_BLOCKED({},{limit})", if *bidi { "bidi" } else { "uni" }),
            NewConnectionId { seq, retire_prior_to, cid, .. } => {
                write!(f, "NEW_CONNECTION_ID(seq={seq},rpt={retire_prior_to},cid={})", crate::util::hex(cid))
            }
            RetireConnectionId { seq } => write!(f, "RETIRE_CONNECTION_ID({seq})"),
            PathChallenge(v) => write!(f, "PATH_CHALLENGE({v:016x})"),
            PathResponse(v) => write!(f, "PATH_RESPONSE({v:016x})"),
            ConnectionClose { code, frame_type, reason } => {
                write!(f, "CONNECTION_CLOSE(code={code:#x},ft={frame_type:#x},reason={:?})", String::from_utf8_lossy(reason))
            }
            ApplicationClose { code, reason } => {
                write!(f, "APPLICATION_CLOSE(code={code},reason={:?})", String::from_utf8_lossy(reason))
            }
            HandshakeDone => write!(f, "HANDSHAKE_DONE"),
            Datagram { data, .. } => write!(f, "DATAGRAM(len={})", data.len()),
            AckFrequency { seq, threshold, max_ack_delay, reordering } => {
                write!(f, "ACK_FREQUENCY(seq={seq},thr={threshold},mad={max_ack_delay},reord={reordering})")
            }
            ImmediateAck => write!(f, "IMMEDIATE_ACK"),
        }
    }
}

impl Frame {
    pub fn is_ack_eliciting(&self) -> bool {
        !matches!(
            self,
            Frame::Padding(_) | Frame::Ack { .. } | Frame::ConnectionClose { .. } | Frame::ApplicationClose { .. }
        )
    }
    pub fn is_close(&self) -> bool {
        matches!(self, Frame::ConnectionClose { .. } | Frame::ApplicationClose { .. })
    }
    pub fn name(&self) -> &'static str {
        use Frame::*;
        match self {
            Padding(_) => "PADDING",
            Ping => "PING",
            Ack { .. } => "ACK",
            ResetStream { .. } => "RESET_STREAM",
            StopSending { .. } => "STOP_SENDING",
            Crypto { .. } => "CRYPTO",
            NewToken { .. } => "NEW_TOKEN",
            Stream { .. } => "STREAM",
            MaxData(_) => "MAX_DATA",
            MaxStreamData { .. } => "MAX_STREAM_DATA",
            MaxStreams { .. } => "MAX_STREAMS",
            DataBlocked(_) => "DATA_BLOCKED",
            StreamDataBlocked { .. } => "STREAM_DATA_BLOCKED",
            StreamsBlocked { .. } => "STREAMS_BLOCKED",
            NewConnectionId { .. } => "NEW_CONNECTION_ID",
            RetireConnectionId { .. } => "RETIRE_CONNECTION_ID",
            PathChallenge(_) => "PATH_CHALLENGE",
            PathResponse(_) => "PATH_RESPONSE",
            ConnectionClose { .. } => "CONNECTION_CLOSE",
            ApplicationClose { .. } => "APPLICATION_CLOSE",
            HandshakeDone => "HANDSHAKE_DONE",
            Datagram { .. } => "DATAGRAM",
            AckFrequency { .. } => "ACK_FREQUENCY",
            ImmediateAck => "IMMEDIATE_ACK",
        }
    }

    pub fn encode(&self, out: &mut Vec<u8>) {
        use Frame::*;
        match self {
            Padding(n) => out.extend(std::iter::repeat(0).take(*n)),
            Ping => out.push(0x01),
            Ack { largest, delay, ranges, ecn } => {
                out.push(if ecn.is_some() { 0x03 } else { 0x02 });
                // ranges: descending list of inclusive (lo, hi)
                put_var(out, *largest);
                put_var(out, *delay);
                put_var(out, ranges.len() as u64 - 1);
                let (lo0, hi0) = ranges[0];
                debug_assert_eq!(hi0, *largest);
                put_var(out, hi0 - lo0);
                let mut prev_lo = lo0;
                for &(lo, hi) in &ranges[1..] {
                    put_var(out, prev_lo - hi - 2);
                    put_var(out, hi - lo);
                    prev_lo = lo;
                }
                if let Some((a, b, c)) = ecn {
                    put_var(out, *a);
                    put_var(out, *b);
                    put_var(out, *c);
                }
            }
            ResetStream { id, code, final_size } => {
                out.push(0x04);
                put_var(out, *id);
                put_var(out, *code);
                put_var(out, *final_size);
            }
            StopSending { id, code } => {
                out.push(0x05);
                put_var(out, *id);
                put_var(out, *code);
            }
            Crypto { off, data } => {
                out.push(0x06);
                put_var(out, *off);
                put_var(out, data.len() as u64);
                out.extend_from_slice(data);
            }
            NewToken { token } => {
                out.push(0x07);
                put_var(out, token.len() as u64);
                out.extend_from_slice(token);
            }
            Stream { id, off, fin, data, explicit_len, explicit_off } => {
                let has_off = *explicit_off || *off != 0;
                let mut ty = 0x08u8;
                if *fin {
                    ty |= 1;
                }
                if *explicit_len {
                    ty |= 2;
                }
                if has_off {
                    ty |= 4;
                }
                out.push(ty);
                put_var(out, *id);
                if has_off {
                    put_var(out, *off);
                }
                if *explicit_len {
                    put_var(out, data.len() as u64);
                }
                out.extend_from_slice(data);
            }
            MaxData(v) => {
                out.push(0x10);
                put_var(out, *v);
            }
            MaxStreamData { id, max } => {
                out.push(0x11);
                put_var(out, *id);
                put_var(out, *max);
            }
            MaxStreams { bidi, max } => {
                out.push(if *bidi { 0x12 } else { 0x13 });
                put_var(out, *max);
            }
            DataBlocked(v) => {
                out.push(0x14);
                put_var(out, *v);
            }
            StreamDataBlocked { id, limit } => {
                out.push(0x15);
                put_var(out, *id);
                put_var(out, *limit);
            }
            StreamsBlocked { bidi, limit } => {
                out.push(if *bidi { 0x16 } else { 0x17 });
                put_var(out, *limit);
            }
            NewConnectionId { seq, retire_prior_to, cid, token } => {
                out.push(0x18);
                put_var(out, *seq);
                put_var(out, *retire_prior_to);
                out.push(cid.len() as u8);
                out.extend_from_slice(cid);
                out.extend_from_slice(token);
            }
            RetireConnectionId { seq } => {
                out.push(0x19);
                put_var(out, *seq);
            }
            PathChallenge(v) => {
                out.push(0x1a);
                out.extend_from_slice(&v.to_be_bytes());
            }
            PathResponse(v) => {
                out.push(0x1b);
                out.extend_from_slice(&v.to_be_bytes());
            }
            ConnectionClose { code, frame_type, reason } => {
                out.push(0x1c);
                put_var(out, *code);
                put_var(out, *frame_type);
                put_var(out, reason.len() as u64);
                out.extend_from_slice(reason);
            }
            ApplicationClose { code, reason } => {
                out.push(0x1d);
                put_var(out, *code);
                put_var(out, reason.len() as u64);
                out.extend_from_slice(reason);
            }
            HandshakeDone => out.push(0x1e),
            Datagram { data, explicit_len } => {
                out.push(if *explicit_len { 0x31 } else { 0x30 });
                if *explicit_len {
                    put_var(out, data.len() as u64);
                }
                out.extend_from_slice(data);
            }
            AckFrequency { seq, threshold, max_ack_delay, reordering } => {
                put_var(out, 0xaf);
                put_var(out, *seq);
                put_var(out, *threshold);
                put_var(out, *max_ack_delay);
                put_var(out, *reordering);
            }
            ImmediateAck => out.push(0x1f),
        }
    }
}

/// Decode all frames of a packet payload.
pub fn decode_frames(payload: &[u8]) -> WResult<Vec<Frame>> {
    let mut r = Rd::new(payload);
    let mut out = Vec::new();
    while r.left() > 0 {
        let ty = r.var()?;
        let f = match ty {
            0x00 => {
                let mut n = 1;
                while r.left() > 0 && r.b[r.p] == 0 {
                    r.p += 1;
                    n += 1;
                }
                Frame::Padding(n)
            }
            0x01 => Frame::Ping,
            0x02 | 0x03 => {
                let largest = r.var()?;
                let delay = r.var()?;
                let count = r.var()?;
                let first = r.var()?;
                if first > largest {
                    return Err(WireError::Malformed("ack first range"));
                }
                let mut ranges = vec![(largest - first, largest)];
                let mut lo = largest - first;
                for _ in 0..count {
                    let gap = r.var()?;
                    let len = r.var()?;
                    let hi = lo.checked_sub(gap).and_then(|x| x.checked_sub(2)).ok_or(WireError::Malformed("ack gap"))?;
                    let nlo = hi.checked_sub(len).ok_or(WireError::Malformed("ack len"))?;
                    ranges.push((nlo, hi));
                    lo = nlo;
                }
                let ecn = if ty == 0x03 { Some((r.var()?, r.var()?, r.var()?)) } else { None };
                Frame::Ack { largest, delay, ranges, ecn }
            }
            0x04 => Frame::ResetStream { id: r.var()?, code: r.var()?, final_size: r.var()? },
            0x05 => Frame::StopSending { id: r.var()?, code: r.var()? },
            0x06 => {
                let off = r.var()?;
                let len = r.var()? as usize;
                Frame::Crypto { off, data: r.take(len)?.to_vec() }
            }
            0x07 => {
                let len = r.var()? as usize;
                Frame::NewToken { token: r.take(len)?.to_vec() }
            }
            0x08..=0x0f => {
                let id = r.var()?;
                let explicit_off = ty & 4 != 0;
                let off = if explicit_off { r.var()? } else { 0 };
                let explicit_len = ty & 2 != 0;
                let data = if explicit_len {
                    let len = r.var()? as usize;
                    r.take(len)?.to_vec()
                } else {
                    r.take(r.left())?.to_vec()
                };
                Frame::Stream { id, off, fin: ty & 1 != 0, data, explicit_len, explicit_off }
            }
            0x10 => Frame::MaxData(r.var()?),
            0x11 => Frame::MaxStreamData { id: r.var()?, max: r.var()? },
            0x12 | 0x13 => Frame::MaxStreams { bidi: ty == 0x12, max: r.var()? },
            0x14 => Frame::DataBlocked(r.var()?),
            0x15 => Frame::StreamDataBlocked { id: r.var()?, limit: r.var()? },
            0x16 | 0x17 => Frame::StreamsBlocked { bidi: ty == 0x16, limit: r.var()? },
            0x18 => {
                let seq = r.var()?;
                let retire_prior_to = r.var()?;
                let l = r.u8()? as usize;
                if l == 0 || l > 20 {
                    return Err(WireError::Malformed("cid len"));
                }
                let cid = r.take(l)?.to_vec();
                let token: [u8; 16] = r.take(16)?.try_into().unwrap();
                Frame::NewConnectionId { seq, retire_prior_to, cid, token }
            }
            0x19 => Frame::RetireConnectionId { seq: r.var()? },
            0x1a => Frame::PathChallenge(r.u64()?),
            0x1b => Frame::PathResponse(r.u64()?),
            0x1c => {
                let code = r.var()?;
                let frame_type = r.var()?;
                let l = r.var()? as usize;
                Frame::ConnectionClose { code, frame_type, reason: r.take(l)?.to_vec() }
            }
            0x1d => {
                let code = r.var()?;
                let l = r.var()? as usize;
                Frame::ApplicationClose { code, reason: r.take(l)?.to_vec() }
            }
            0x1e => Frame::HandshakeDone,
            0x1f => Frame::ImmediateAck,
            0x30 | 0x31 => {
                let explicit_len = ty == 0x31;
                let data = if explicit_len {
                    let l = r.var()? as usize;
                    r.take(l)?.to_vec()
                } else {
                    r.take(r.left())?.to_vec()
                };
                Frame::Datagram { data, explicit_len }
            }
            0xaf => Frame::AckFrequency {
                seq: r.var()?,
                threshold: r.var()?,
                max_ack_delay: r.var()?,
                reordering: r.var()?,
            },
            _ => return Err(WireError::Malformed("unknown frame type")),
        };
        out.push(f);
    }
    Ok(out)
}

/// One decoded packet of a plaintext-lane datagram.
#[derive(Debug, Clone)]
pub struct DecodedPacket {
    pub pkt: Pkt,
    pub frames: Vec<Frame>,
    /// Size of this packet on the wire
    pub size: usize,
}

impl DecodedPacket {
    pub fn ack_eliciting(&self) -> bool {
        self.frames.iter().any(|f| f.is_ack_eliciting())
    }
    pub fn has_padding(&self) -> bool {
        self.frames.iter().any(|f| matches!(f, Frame::Padding(_)))
    }
    pub fn has_close(&self) -> bool {
        self.frames.iter().any(|f| f.is_close())
    }
}

/// Decode a datagram produced on the plaintext lane (identity header protection, 16-byte tag).
pub fn decode_plain_datagram(d: &[u8], short_dcid_len: usize) -> WResult<Vec<DecodedPacket>> {
    let mut out = Vec::new();
    for (pkt, range) in split_datagram(d, short_dcid_len)? {
        let bytes = &d[range.clone()];
        let frames = match pkt.ty {
            PType::Retry | PType::VersionNegotiation => vec![],
            _ => {
                let h = pkt.header_len();
                if bytes.len() < h + 16 {
                    return Err(WireError::Malformed("packet shorter than header+tag"));
                }
                decode_frames(&bytes[h..bytes.len() - 16])?
            }
        };
        out.push(DecodedPacket { pkt, frames, size: bytes.len() });
    }
    Ok(out)
}
