use qv::{app::*, cfg::*, world::*};
fn main() {
    for scid in [0usize, 1, 2, 3, 4, 8, 20] {
        for ccid in [0usize, 4, 20] {
            let mut srv = ServerSpec::default();
            srv.policy = IncomingPolicy::RetryFirst;
            let mut s0 = EpSpec::new(0, Some(srv));
            s0.cid_len = scid;
            let mut s1 = EpSpec::new(1, None);
            s1.cid_len = ccid;
            let mut w = World::new(1, Lane::Null, vec![s0, s1], NetCfg::default(), DriverCfg::default());
            let mut app = AppCfg::default();
            app.plans.push(StreamPlan { bidi: true, len: 1000, chunk: 500, use_write_chunks: false, end: EndMode::Finish, prio: 0 });
            w.connect(1, 0, TcfgP::default(), app).unwrap();
            let end = w.run(5000, 20_000_000_000, |w| w.all_connected() && w.workload_complete() && w.steps > 5);
            println!("server cid {scid} client cid {ccid}: {end:?} steps={} connected={}", w.steps, w.all_connected());
        }
    }
}
