use proto::crypto::HmacKey;
fn main() {
    let k = qv::nullcrypto::NullHmacKey(12345);
    let a = [0xca, 0xf8, 0x7b, 0x97, 0xb6, 0xc9, 0x7a, 0xc4];
    let b = [0xca, 0xf9, 0x7b, 0x97, 0xb6, 0xc9, 0x7a, 0xc4];
    let mut sa = [0u8; 32];
    let mut sb = [0u8; 32];
    k.sign(&a, &mut sa);
    k.sign(&b, &mut sb);
    println!("{}\n{}", qv::util::hex(&sa), qv::util::hex(&sb));
}
