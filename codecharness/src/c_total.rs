//! Component 7: totality. Every decoder on random bytes (lengths 0..300, heavy on short), on every
//! truncation and on 1-3 byte mutations of valid encodings: returns a value or an error, never
//! panics (each call runs under `catch_unwind`; sanitizer lanes add "no ASan/Miri report").
//!
//! Beyond "no panic", accepted inputs are judged too:
//!   * frames: whatever `frame::Iter` accepts must re-encode (production encoders) and decode again
//!     to the same rendering, and must be read identically by the independent decoder; whatever
//!     it rejects must be rejected by the independent decoder as well, except the documented
//!     deliberate rejections (NEW_CONNECTION_ID retire_prior_to > sequence, empty payload);
//!   * packets: `PartialDecode::new` must hand back every input byte (packet + remainder) and agree
//!     with the independent parser on length and destination cid whenever both accept;
//!   * transport parameters: `read` succeeds exactly when the independent strict decoder accepts,
//!     with equal field values;
//!   * tokens: unauthenticated bytes never decode.

use std::io;

use bytes::BytesMut;
use proto::{
    coding::Codec,
    transport_parameters::TransportParameters,
    verif::{cid_decode_long, decode_frames, partial_decode_finish, partial_decode_info, pn_decode_expand, reencode_frames, tp_fields, token_decode},
    FixedLengthConnectionIdParser, PartialDecode, ProtectedHeader, Side, VarInt, DEFAULT_SUPPORTED_VERSIONS,
};
use qv::{
    check::{run_group, CaseOut, Ctx, Group, Report},
    nullcrypto::{NullHeaderKey, NullTokenKey},
    util::Rng,
    wire::{self, Frame},
};

use crate::{
    c_frames::{encode_all, gen_sequence, render_all},
    c_headers::{build, gen_spec, XorHp},
    c_tokens::gen_payload,
    c_tparams::{encode_items, expected_fields, gen_invalid, gen_valid, items_of, nonminimal_only, strict_validate, NONMINIMAL_REJECTED, INVALID_KINDS},
    common::*,
    Cfg,
};

// ---------------------------------------------------------------------------------------------

fn varint_input(acc: &mut Acc, b: &[u8]) {
    acc.input();
    let q = guard(|| {
        let mut r = b;
        VarInt::decode(&mut r).ok().map(|v| (v.into_inner(), b.len() - r.len()))
    });
    let q = match q {
        Ok(q) => q,
        Err(p) => return report_panic(acc, "VarInt::decode", b, &p),
    };
    let mut rd = wire::Rd::new(b);
    let w = rd.var().ok().map(|v| (v, rd.p));
    if q != w {
        acc.viol(format!("varint: decode of bytes {} yields {q:?}, independent decoder yields {w:?}", hex(b)));
    } else {
        acc.inc("total.varint");
    }
}

pub fn frames_input(acc: &mut Acc, b: &[u8]) {
    acc.input();
    let q = match guard(|| decode_frames(b)) {
        Ok(q) => q,
        Err(p) => return report_panic(acc, "frame::Iter", b, &p),
    };
    let w = wire::decode_frames(b);
    match (&q, &w) {
        (Ok(qv), Ok(wv)) => {
            let wr = render_all(wv);
            if *qv != wr {
                acc.viol(format!("frames: bytes {} decode in quinn to {qv:?}, the independent decoder reads {wr:?}", hex(b)));
                return;
            }
            // accepted input: production encoders must reproduce the value
            for length_on_last in [false, true] {
                let re = match guard(|| reencode_frames(b, length_on_last, 1 << 20)) {
                    Ok(Ok(re)) => re,
                    Ok(Err(e)) => {
                        acc.viol(format!("frames: accepted payload {} cannot be re-encoded: {e}", hex(b)));
                        return;
                    }
                    Err(p) => return report_panic(acc, "production frame encoders", b, &p),
                };
                match guard(|| decode_frames(&re)) {
                    Ok(Ok(back)) if back == *qv => {}
                    Ok(other) => {
                        acc.viol(format!("frames: accepted payload {} = {qv:?} re-encodes to {} which decodes to {other:?}", hex(b), hex(&re)));
                        return;
                    }
                    Err(p) => return report_panic(acc, "frame::Iter", &re, &p),
                }
            }
            acc.inc("total.frames_accepted_and_roundtripped");
            acc.cover("total-frames-ok", &[qv.len().min(8) as u64, wv.first().map_or(99, |f| f.name().len() as u64)]);
        }
        (Err(_), Err(_)) => {
            acc.inc("total.frames_rejected_by_both");
            acc.cover("total-frames-err", &[b.len().min(40) as u64 / 8]);
        }
        (Err(e), Ok(wv)) => {
            let deliberate = b.is_empty() || wv.iter().any(|f| matches!(f, Frame::NewConnectionId { seq, retire_prior_to, .. } if retire_prior_to > seq));
            if deliberate {
                acc.inc("total.frames_deliberately_rejected");
            } else {
                acc.viol(format!("frames: bytes {} rejected by quinn ({e}) but are the well-formed sequence {:?}", hex(b), render_all(wv)));
            }
        }
        (Ok(qv), Err(e)) => {
            acc.viol(format!("frames: bytes {} accepted by quinn as {qv:?} but malformed for the independent decoder ({e:?})", hex(b)));
        }
    }
}

pub fn packet_input(acc: &mut Acc, b: &[u8], r: &mut Rng) {
    acc.input();
    let local = r.usize(21);
    let grease = r.bool();
    let custom = [1u32, 0x6b33_43cf];
    let versions: &[u32] = if r.chance(80) { DEFAULT_SUPPORTED_VERSIONS } else { &custom };
    let parser = FixedLengthConnectionIdParser::new(local);
    if let Err(p) = guard(|| {
        let mut c = io::Cursor::new(b);
        let _ = ProtectedHeader::decode(&mut c, &parser, versions, grease).map(|h| h.dst_cid());
    }) {
        return report_panic(acc, "ProtectedHeader::decode", b, &p);
    }
    let xor = XorHp(r.u64());
    let mut buf = BytesMut::from(b);
    let mut consumed = 0usize;
    for _ in 0..8 {
        let res = guard(|| PartialDecode::new(buf.clone(), &parser, versions, grease));
        let (pd, rest) = match res {
            Ok(Ok(x)) => x,
            Ok(Err(_)) => {
                acc.inc("total.packet_rejected");
                break;
            }
            Err(p) => return report_panic(acc, "PartialDecode::new", &buf, &p),
        };
        let info = partial_decode_info(&pd);
        let rest_len = rest.as_ref().map_or(0, |r| r.len());
        if pd.len() + rest_len != buf.len() || info.data[..] != b[consumed..consumed + pd.len()] || rest.as_ref().is_some_and(|r| r[..] != b[consumed + pd.len()..]) {
            acc.viol(format!("packet: PartialDecode::new on {} returns a {}-byte packet and a {}-byte remainder that do not tile the input", hex(&buf), pd.len(), rest_len));
            return;
        }
        if grease == false && versions.len() == DEFAULT_SUPPORTED_VERSIONS.len() {
            if let Ok(p) = wire::parse_packet(&buf, local) {
                if p.len != pd.len() || p.dcid[..] != pd.dst_cid()[..] {
                    acc.viol(format!("packet: {} is a {}-byte packet to {} for quinn, {} bytes to {} for the independent parser", hex(&buf), pd.len(), pd.dst_cid(), p.len, hex(&p.dcid)));
                    return;
                }
                acc.inc("total.packet_differential_agree");
            }
        }
        consumed += pd.len();
        // finish with both header keys; protected types need a key (as in production)
        let key: &dyn proto::crypto::HeaderKey = if r.bool() { &NullHeaderKey } else { &xor };
        let data = info.data.clone();
        match guard(|| partial_decode_finish(pd, Some(key))) {
            Ok(Ok(pkt)) => {
                if pkt.header_data.len() + pkt.payload.len() != data.len() {
                    acc.viol(format!("packet: finish on {} yields header {} + payload {} bytes", hex(&data), pkt.header_data.len(), pkt.payload.len()));
                    return;
                }
                acc.inc("total.packet_finished");
                acc.cover("total-packet", &[info.space.map_or(3, |s| s as u64), info.long as u64, rest.is_some() as u64]);
            }
            Ok(Err(_)) => acc.inc("total.packet_finish_rejected"),
            Err(p) => return report_panic(acc, "PartialDecode::finish", &data, &p),
        }
        match rest {
            Some(rest) => buf = rest,
            None => break,
        }
    }
}

pub fn tp_input(acc: &mut Acc, b: &[u8]) {
    acc.input();
    for reader in [Side::Client, Side::Server] {
        let q = match guard(|| TransportParameters::read(reader, &mut &b[..])) {
            Ok(q) => q,
            Err(p) => return report_panic(acc, &format!("TransportParameters::read({reader:?})"), b, &p),
        };
        let s = strict_validate(b, reader);
        match (q, s) {
            (Ok(p), Ok(tp)) => {
                let got = tp_fields(&p);
                if got != expected_fields(&tp) {
                    acc.viol(format!("transport parameters: {} read({reader:?}) as {got:?}, the independent decoder reads {tp:?}", hex(b)));
                    return;
                }
                // accepted input: write -> read is the identity
                let mut enc = Vec::new();
                if let Err(pn) = guard(|| p.write(&mut enc)) {
                    return report_panic(acc, "TransportParameters::write", b, &pn);
                }
                match guard(|| TransportParameters::read(reader, &mut &enc[..])) {
                    Ok(Ok(p2)) if p2 == p => {}
                    Ok(other) => {
                        acc.viol(format!("transport parameters: accepted input {} re-encodes to {} which reads as {other:?}", hex(b), hex(&enc)));
                        return;
                    }
                    Err(pn) => return report_panic(acc, "TransportParameters::read", &enc, &pn),
                }
                acc.inc("total.tp_accepted_and_roundtripped");
                acc.cover("total-tp-ok", &[reader as u64, b.len().min(64) as u64 / 8]);
            }
            (Err(_), Err(_)) => acc.inc("total.tp_rejected_by_both"),
            (Ok(p), Err(why)) => {
                // leniency towards malformed sets is outside C10: observed, not judged; the
                // accepted value must still survive write -> read
                acc.inc("note.tp.invalid_set_accepted");
                observe(format!("transport parameters: invalid set accepted ({})", why.split(": ").next().unwrap_or("")), || format!("{why}: read({reader:?}) of {} returned {:?}", hex(b), tp_fields(&p)));
                let mut enc = Vec::new();
                if let Err(pn) = guard(|| p.write(&mut enc)) {
                    return report_panic(acc, "TransportParameters::write", b, &pn);
                }
                match guard(|| TransportParameters::read(reader, &mut &enc[..])) {
                    Ok(Ok(p2)) if p2 == p => {}
                    Ok(other) => {
                        acc.viol(format!("transport parameters: accepted input {} re-encodes to {} which reads as {other:?}", hex(b), hex(&enc)));
                        return;
                    }
                    Err(pn) => return report_panic(acc, "TransportParameters::read", &enc, &pn),
                }
            }
            (Err(e), Ok(tp)) => {
                if nonminimal_only(b, reader) {
                    acc.inc("note.tp.valid_nonminimal_varint_rejected");
                    observe(NONMINIMAL_REJECTED.to_string(), || format!("read({reader:?}) of {}: {e}", hex(b)));
                } else {
                    acc.viol(format!("transport parameters: valid set {tp:?} encoded as {} rejected by read({reader:?}): {e}", hex(b)));
                    return;
                }
            }
        }
    }
}

fn misc_input(acc: &mut Acc, b: &[u8], r: &mut Rng) {
    acc.input();
    let key = NullTokenKey(r.u64());
    match guard(|| token_decode(&key, b)) {
        Ok(None) => acc.inc("total.token_rejected"),
        Ok(Some(x)) => acc.viol(format!("token: unauthenticated bytes {} decoded to {x:?}", hex(b))),
        Err(p) => report_panic(acc, "Token::decode", b, &p),
    }
    match guard(|| cid_decode_long(b)) {
        Ok(x) => {
            let want = b.first().and_then(|l| if *l <= 20 && b.len() > *l as usize { Some(&b[1..1 + *l as usize]) } else { None });
            if x.as_ref().map(|(c, _)| &c[..]) != want {
                acc.viol(format!("cid: decode_long({}) = {x:?}", hex(b)));
            }
        }
        Err(p) => report_panic(acc, "ConnectionId::decode_long", b, &p),
    }
    for len in [1usize, 2, 4] {
        match guard(|| pn_decode_expand(b, len, r.u64() >> 2)) {
            Ok(x) => {
                if x.is_ok() != (b.len() >= len) {
                    acc.viol(format!("packet number: decode of {len} bytes from {} gives {x:?}", hex(b)));
                }
            }
            Err(p) => report_panic(acc, "PacketNumber::decode/expand", b, &p),
        }
    }
    acc.inc("total.misc");
}

// ---------------------------------------------------------------------------------------------

fn valid_encoding(r: &mut Rng, which: u64) -> Vec<u8> {
    match which {
        0 => encode_all(&gen_sequence(r), None),
        1 => {
            // 1..3 coalesced packets
            let mut d = Vec::new();
            let k = 1 + r.usize(3);
            for i in 0..k {
                let ty = if i + 1 == k { *r.pick(&[wire::PType::Short, wire::PType::Retry, wire::PType::VersionNegotiation, wire::PType::Handshake]) } else { *r.pick(&[wire::PType::Initial, wire::PType::ZeroRtt, wire::PType::Handshake]) };
                let qs = r.bool();
        let mut s = gen_spec(r, ty, qs, 20);
                s.payload.truncate(60);
                d.extend_from_slice(&build(&s));
            }
            d
        }
        2 => {
            let sender = if r.bool() { Side::Client } else { Side::Server };
            let tp = gen_valid(r, sender);
            let minimal = r.chance(80);
            let mut items = items_of(&tp, r, minimal);
            r.shuffle(&mut items);
            encode_items(&items, None)
        }
        _ => {
            let k = r.below(INVALID_KINDS);
            gen_invalid(r, k).0
        }
    }
}

fn random_case(seed: u64, per_case: u64, trace: bool) -> CaseOut {
    let mut acc = Acc::new(trace);
    let mut r = Rng::new(seed);
    for i in 0..per_case {
        match i % 8 {
            0 => {
                let b = rand_bytes(&mut r, 300);
                frames_input(&mut acc, &b);
                packet_input(&mut acc, &b, &mut r);
                tp_input(&mut acc, &b);
                misc_input(&mut acc, &b, &mut r);
                let n = r.usize(10);
                varint_input(&mut acc, &b[..n.min(b.len())]);
            }
            1 | 2 => {
                let v = valid_encoding(&mut r, 0);
                let m = mutate(&mut r, &v);
                frames_input(&mut acc, &m);
            }
            3 | 4 => {
                let v = valid_encoding(&mut r, 1);
                let m = mutate(&mut r, &v);
                packet_input(&mut acc, &m, &mut r);
            }
            5 | 6 => {
                let v = valid_encoding(&mut r, 2 + (i % 2));
                let m = mutate(&mut r, &v);
                tp_input(&mut acc, &m);
            }
            _ => {
                // every truncation of one valid encoding of each kind
                let which = r.below(3);
                let v = valid_encoding(&mut r, which);
                let v = &v[..v.len().min(160)];
                for n in 0..=v.len() {
                    match which {
                        0 => frames_input(&mut acc, &v[..n]),
                        1 => packet_input(&mut acc, &v[..n], &mut r),
                        _ => tp_input(&mut acc, &v[..n]),
                    }
                }
                acc.inc("total.full_truncation_sweeps");
                // token plaintext mutations are exercised in the token component (sealed plaintexts)
                let p = gen_payload(&mut r);
                let (t, _) = proto::verif::token_encode(&NullTokenKey(5), &p, r.u64());
                let m = mutate(&mut r, &t);
                misc_input(&mut acc, &m, &mut r);
            }
        }
        if acc.out.viol.len() >= 6 {
            break;
        }
    }
    acc.finish()
}

pub fn run(ctx: &Ctx, cfg: &Cfg, rep: &mut Report) {
    let per_case = cfg.per_case(512, 4096, 8);
    let g = Group { name: "totality", cases: cfg.cases(5120, 32768), budget_s: cfg.budget(45.0, 500.0, 0.21), exhaustive: false };
    run_group(ctx, rep, &g, |_, seed, tr| random_case(seed, per_case, tr));
}
