//! qvcodec: runtime monitoring of quinn-proto's wire codecs (property C10).
//!
//!   qvcodec check C10 [--tier quick|thorough] [--seed N] [--threads N] [--lane fast|asan|miri]
//!                     [--shard I/N] [--only component[,component]] [--replay FILE]
//!   qvcodec merge <main-evidence.json> <lane>=<evidence.json|MISSING:reason>...
//!
//! See /verif/DESIGN.md §4 C10 and NOTES.md next to this crate.

use std::{collections::BTreeMap, sync::atomic::Ordering, time::Instant};

use qv::check::{self, Ctx, Finish, Report, Tier};
use serde_json::{json, Value};

mod c_frames;
mod c_headers;
mod c_pn;
mod c_tokens;
mod c_total;
mod c_tparams;
mod c_varint;
mod common;

#[derive(Debug, Clone, Copy, PartialEq, Eq)]
pub enum Lane {
    Fast,
    Asan,
    Miri,
}

impl Lane {
    fn name(self) -> &'static str {
        match self {
            Lane::Fast => "fast",
            Lane::Asan => "asan",
            Lane::Miri => "miri",
        }
    }
}

#[derive(Debug, Clone)]
pub struct Cfg {
    pub tier: Tier,
    pub lane: Lane,
    /// (index, count): shards use different seeds and 1/count of the random work; the small
    /// exhaustive groups run on shard 0 only
    pub shard: (u64, u64),
    /// Miri only: wall-clock seconds this process may spend in budgeted groups
    pub miri_budget_s: f64,
}

impl Cfg {
    /// Number of runner cases of a sampled group: quick / thorough on the fast lane, a quarter (quick) or a
    /// twenty-fourth (thorough) of that under ASan, divided over the shards. Under Miri the group is limited by its time
    /// budget instead (`budget`).
    pub fn cases(&self, q: u64, t: u64) -> u64 {
        let base = match self.lane {
            Lane::Fast => self.tier.pick(q, t),
            // measured: ~10x slower per input than the fast lane (allocation-heavy harness code)
            Lane::Asan => self.tier.pick(q / 4, t / 24).max(1),
            Lane::Miri => return 1_000_000,
        };
        (base / self.shard.1).max(1)
    }
    /// Inputs per runner case.
    pub fn per_case(&self, q: u64, t: u64, miri: u64) -> u64 {
        match self.lane {
            Lane::Fast | Lane::Asan => self.tier.pick(q, t),
            Lane::Miri => miri,
        }
    }
    /// Soft wall-clock budget of a sampled group; `miri_share` is its fraction of the Miri budget.
    pub fn budget(&self, q: f64, t: f64, miri_share: f64) -> f64 {
        match self.lane {
            Lane::Fast => self.tier.pick(q, t),
            Lane::Asan => self.tier.pick(q * 2.0, t * 0.8),
            Lane::Miri => self.miri_budget_s * miri_share,
        }
    }
}

fn usage() -> ! {
    eprintln!("usage: qvcodec check C10 [--tier quick|thorough] [--seed N] [--threads N] [--lane fast|asan|miri] [--shard I/N] [--budget SECONDS(miri)] [--only a,b] [--replay FILE]\n       qvcodec merge <main.json> <lane>=<file|MISSING:reason>...");
    std::process::exit(2)
}

fn main() {
    let args: Vec<String> = std::env::args().collect();
    if args.len() >= 3 && args[1] == "merge" {
        std::process::exit(merge(&args[2], &args[3..]));
    }
    if args.len() < 3 || args[1] != "check" || args[2] != "C10" {
        usage();
    }
    let mut tier = match std::env::var("VERIF_TIER").as_deref() {
        Ok("thorough") => Tier::Thorough,
        _ => Tier::Quick,
    };
    let mut seed: u64 = std::env::var("VERIF_SEED").ok().and_then(|s| s.parse().ok()).unwrap_or(1);
    let mut threads = std::thread::available_parallelism().map(|n| n.get()).unwrap_or(8);
    let mut replay = None;
    let mut lane = Lane::Fast;
    let mut shard = (0u64, 1u64);
    let mut only: Option<Vec<String>> = None;
    let mut miri_budget_s: Option<f64> = None;
    let mut i = 3;
    while i < args.len() {
        let need = |i: usize| args.get(i).cloned().unwrap_or_else(|| usage());
        match args[i].as_str() {
            "--tier" => {
                i += 1;
                tier = if need(i) == "thorough" { Tier::Thorough } else { Tier::Quick };
            }
            "--seed" => {
                i += 1;
                seed = need(i).parse().unwrap_or(1);
            }
            "--threads" => {
                i += 1;
                threads = need(i).parse().unwrap_or(threads);
            }
            "--lane" => {
                i += 1;
                lane = match need(i).as_str() {
                    "fast" => Lane::Fast,
                    "asan" => Lane::Asan,
                    "miri" => Lane::Miri,
                    _ => usage(),
                };
            }
            "--shard" => {
                i += 1;
                let s = need(i);
                let (a, b) = s.split_once('/').unwrap_or_else(|| usage());
                shard = (a.parse().unwrap_or(0), b.parse().unwrap_or(1).max(1));
            }
            "--budget" => {
                i += 1;
                miri_budget_s = need(i).parse().ok();
            }
            "--verif-dir" => {
                // where known_findings.json is read and evidence/ is written (same as the
                // QV_VERIF_DIR variable; argv because the Miri interpreter does not pass the
                // host environment through)
                i += 1;
                std::env::set_var("QV_VERIF_DIR", need(i));
            }
            "--only" => {
                i += 1;
                only = Some(need(i).split(',').map(|s| s.to_string()).collect());
            }
            "--replay" => {
                i += 1;
                let s = std::fs::read_to_string(need(i)).expect("read replay file");
                let v: Value = serde_json::from_str(&s).expect("parse replay file");
                replay = Some((v["group"].as_str().unwrap().to_string(), v["case_index"].as_u64().unwrap(), v["case_seed"].as_u64().unwrap()));
                if let Some(rs) = v["run_seed"].as_u64() {
                    seed = rs;
                }
                if v["tier"].as_str() == Some("thorough") {
                    tier = Tier::Thorough;
                }
                if let Some(l) = v["lane"].as_str() {
                    lane = match l {
                        "asan" => Lane::Asan,
                        "miri" => Lane::Miri,
                        _ => Lane::Fast,
                    };
                }
                if let (Some(a), Some(b)) = (v["shard"][0].as_u64(), v["shard"][1].as_u64()) {
                    shard = (a, b);
                }
            }
            _ => usage(),
        }
        i += 1;
    }
    if lane == Lane::Miri {
        threads = 1;
    }
    check::install_panic_hook();
    // shards draw different random cases
    // (a replay file already carries the derived seed)
    let run_seed = if shard.1 > 1 && replay.is_none() { qv::util::hash64(seed, &[&shard.0.to_le_bytes()]) } else { seed };
    let ctx = Ctx { prop: "C10", tier, seed: run_seed, threads, replay, verbose: false };
    let cfg = Cfg { tier, lane, shard, miri_budget_s: miri_budget_s.unwrap_or(tier.pick(12.0, 420.0)) };
    std::process::exit(run(&ctx, &cfg, seed, only.as_deref()));
}

type Component = (&'static str, fn(&Ctx, &Cfg, &mut Report));

const COMPONENTS: [Component; 7] = [
    ("varint", c_varint::run),
    ("pn", c_pn::run),
    ("frames", c_frames::run),
    ("headers", c_headers::run),
    ("tparams", c_tparams::run),
    ("tokens", c_tokens::run),
    ("totality", c_total::run),
];

fn run(ctx: &Ctx, cfg: &Cfg, user_seed: u64, only: Option<&[String]>) -> i32 {
    let t = Instant::now();
    let mut rep = Report::default();
    let mut per_component = BTreeMap::new();
    for (name, f) in COMPONENTS {
        if only.is_some_and(|o| !o.iter().any(|x| x == name)) {
            continue;
        }
        let t0 = Instant::now();
        let before = common::INPUTS.load(Ordering::Relaxed);
        f(ctx, cfg, &mut rep);
        let n = common::INPUTS.load(Ordering::Relaxed) - before;
        per_component.insert(name.to_string(), json!({"inputs_judged": n, "wall_s": (t0.elapsed().as_secs_f64() * 100.0).round() / 100.0}));
        if ctx.replay.is_none() {
            eprintln!("[{}] {name}: {n} inputs in {:.1}s, violations so far {}", cfg.lane.name(), t0.elapsed().as_secs_f64(), rep.violations.len());
        }
    }
    // evaluations = individual inputs judged (a runner case is a batch); distinct_nontrivial =
    // distinct coverage classes on which an oracle compared a decoded value or outcome
    let inputs = common::INPUTS.load(Ordering::Relaxed);
    let batches = rep.evaluations;
    rep.evaluations = inputs.max(batches);
    if let Some(c) = common::COVER.lock().unwrap().as_ref() {
        rep.fps = c.iter().copied().collect();
    }
    rep.samples = common::SAMPLES.lock().unwrap().clone();
    rep.harness_errors.extend(common::HARNESS_ERRORS.lock().unwrap().iter().cloned());
    let exhaustive_groups: Vec<String> = rep.groups.iter().filter(|(_, v)| v.2).map(|(k, _)| k.clone()).collect();
    rep.extra.insert("lane".into(), json!(cfg.lane.name()));
    rep.extra.insert("shard".into(), json!([cfg.shard.0, cfg.shard.1]));
    rep.extra.insert("runner_batches".into(), json!(batches));
    rep.extra.insert("per_component".into(), json!(per_component));
    rep.extra.insert("exhaustive_subspaces".into(), json!(exhaustive_groups));
    rep.extra.insert(
        "notes".into(),
        json!([
            "counters frames.close_over_budget / pn.short_buffer_assert_* record behaviour outside C10's statement (size budget of Close::encode; an assert behind a caller-side length check); they are not judged here",
            "cid.hashed_validate_* are probabilistic acceptance counts, not judged",
            "note.* counters and observations_not_judged: decoder leniency/strictness on inputs the library never produces (malformed transport-parameter sets accepted, non-minimal varint values in transport parameters rejected, version negotiation packets with the unused bit clear dropped); C10 asks for totality and for round trips of what the library encodes, so these are recorded for C03 and not judged",
        ]),
    );
    {
        let obs = common::OBSERVATIONS.lock().unwrap();
        let list: Vec<Value> = obs.iter().map(|(k, (n, ex))| json!({"observation": k, "count": n, "example": ex})).collect();
        if ctx.replay.is_none() {
            for (k, (n, ex)) in obs.iter() {
                let ex: String = ex.chars().take(300).collect();
                println!("NOTE: C10 observation, not judged ({n}x): {k}; e.g. {ex}");
            }
        }
        rep.extra.insert("observations_not_judged".into(), json!(list));
    }
    if only.is_some() {
        rep.extra.insert("only".into(), json!(only));
    }
    let miri = cfg.lane == Lane::Miri;
    let full = only.is_none();
    let required: Vec<&'static str> = if !full {
        vec![]
    } else if miri {
        vec!["varint.values_roundtripped", "pn.triples_expanded", "frames.decode_agree", "header.roundtrip_agree", "tp.read_agree", "token.roundtrip_agree", "total.misc"]
    } else {
        vec![
            "varint.values_roundtripped",
            "varint.nonminimal_decoded",
            "varint.short_strings_decoded",
            "pn.triples_expanded",
            "pn.full_receiver_windows",
            "frames.decode_agree",
            "frames.decode_nonminimal_agree",
            "frames.reencode_agree",
            "frames.invalid_rejected",
            "header.encode_agree",
            "header.roundtrip_agree",
            "header.wire_built_agree",
            "header.unsupported_version_reported",
            "coalesce.split_agree",
            "tp.read_agree",
            "tp.write_read_agree",
            "tp.production_write_read_agree",
            "tp.invalid_rejected",
            "token.roundtrip_agree",
            "token.truncations_rejected",
            "token.bitflips_rejected",
            "token.sealed_plain_agree",
            "cid.generate_validate_ok",
            "reset_token.agree",
            "total.frames_accepted_and_roundtripped",
            "total.frames_rejected_by_both",
            "total.packet_finished",
            "total.tp_accepted_and_roundtripped",
            "total.tp_rejected_by_both",
            "total.token_rejected",
            "total.full_truncation_sweeps",
        ]
    };
    let (min_evals, min_nontrivial) = match (cfg.lane, ctx.tier, full) {
        (_, _, false) => (1, 2),
        // a shard on a busy machine judges a few hundred inputs; floor well below that
        (Lane::Miri, _, _) => (20, 10),
        (Lane::Asan, Tier::Quick, _) => (50_000, 200),
        (Lane::Asan, Tier::Thorough, _) => (1_000_000, 500),
        (Lane::Fast, Tier::Quick, _) => (300_000, 500),
        (Lane::Fast, Tier::Thorough, _) => (100_000_000, 2_000),
    };
    // replay files must bring lane and shard back
    let code = check::finish(
        ctx,
        &rep,
        Finish {
            level: "exploration",
            rule: "generated inputs through quinn-proto's real codecs, judged by round-trip equality, differential comparison with an independent codec (harness wire.rs + the check's own encoders/strict decoders) and no-panic/no-sanitizer-report. evaluations = individual inputs judged (values, (largest_acked, n, rx) triples, frame sequences, packets/datagrams, parameter sets, tokens, byte strings). Exhaustively enumerated sub-spaces are listed in exhaustive_subspaces (all 1-/2-byte varint values and all 1-/2-byte strings always; all 2^30 values of the 4-byte class in thorough; packet-number windows: every d=n-la within W of 2^7/2^15/2^23/2^31, every listed base, every admissible rx in the first and last SPAN positions; every frame field at {0,1,63,64,16383,16384,2^30-1,2^30,2^62-1}; header type x cid length x pn length x token length); everything else is seeded boundary-biased sampling. distinct_nontrivial = number of distinct coverage classes (component x structural shape: size classes, flags, lengths, frame-kind multisets, parameter presence masks, outcome kinds) on which an oracle compared a decoded value or a decode outcome; inputs that were generated but not judged do not count.".into(),
            assumptions: vec![
                "the independent codec (harness wire.rs, plus the encoders/strict decoders inside this check) is correct where it agrees with itself; every disagreement between quinn and it was triaged by hand before being classed as a finding".into(),
                "crate-private codecs are reached through thin wrappers in quinn-proto/src/verif.rs (feature `verif`); simple frames that production writes inline are re-encoded by statements mirroring those writes".into(),
                "token AEAD and header protection are the harness's null implementations behind quinn's public crypto traits (no ring, so the same binary runs under Miri); real-AEAD token paths are C14's".into(),
                "sanitizer lanes: a clean run means no report in the executions performed, not memory safety".into(),
            ],
            min_evals,
            min_nontrivial,
            required,
            exhaustive: false,
        },
        t.elapsed().as_secs_f64(),
    );
    let _ = user_seed;
    code
}

/// Fold the evidence of the sanitizer lanes into the main evidence file and recompute the verdict.
/// Exit code: 0 held, 1 some lane violated, 2 some lane inconclusive / missing.
fn merge(main_path: &str, lanes: &[String]) -> i32 {
    let Ok(s) = std::fs::read_to_string(main_path) else {
        println!("INCONCLUSIVE: property=C10 main evidence file {main_path} missing");
        return 2;
    };
    let mut ev: Value = serde_json::from_str(&s).expect("main evidence parses");
    let mut worst = match ev["verdict"].as_str() {
        Some("violated") => 1,
        Some("inconclusive") => 2,
        _ => 0,
    };
    let mut lanes_out = serde_json::Map::new();
    let mut total_viol = ev["violations"].as_u64().unwrap_or(0);
    for l in lanes {
        let Some((name, path)) = l.split_once('=') else { continue };
        // several shards of one lane: name may repeat
        let entry = lanes_out.entry(name.to_string()).or_insert_with(|| json!({"shards": 0, "evaluations": 0, "distinct_nontrivial_sum": 0, "violations": 0, "sanitizer_reports": 0, "wall_s_max": 0.0, "verdicts": [], "counters": {}}));
        entry["shards"] = json!(entry["shards"].as_u64().unwrap() + 1);
        if let Some(reason) = path.strip_prefix("MISSING:") {
            entry["verdicts"].as_array_mut().unwrap().push(json!(format!("inconclusive: {reason}")));
            if worst == 0 {
                worst = 2;
            }
            continue;
        }
        if let Some(log) = path.strip_prefix("REPORT:") {
            entry["sanitizer_reports"] = json!(entry["sanitizer_reports"].as_u64().unwrap() + 1);
            entry["verdicts"].as_array_mut().unwrap().push(json!(format!("violated: sanitizer/interpreter report, log {log}")));
            total_viol += 1;
            worst = 1;
            continue;
        }
        let Ok(ls) = std::fs::read_to_string(path) else {
            entry["verdicts"].as_array_mut().unwrap().push(json!("inconclusive: evidence file missing"));
            if worst == 0 {
                worst = 2;
            }
            continue;
        };
        let lv: Value = serde_json::from_str(&ls).unwrap_or(Value::Null);
        let add = |e: &mut Value, k: &str, v: u64| e[k] = json!(e[k].as_u64().unwrap_or(0) + v);
        add(entry, "evaluations", lv["coverage"]["evaluations"].as_u64().unwrap_or(0));
        add(entry, "distinct_nontrivial_sum", lv["coverage"]["distinct_nontrivial"].as_u64().unwrap_or(0));
        add(entry, "violations", lv["violations"].as_u64().unwrap_or(0));
        total_viol += lv["violations"].as_u64().unwrap_or(0);
        let w = lv["wall_s"].as_f64().unwrap_or(0.0).max(entry["wall_s_max"].as_f64().unwrap_or(0.0));
        entry["wall_s_max"] = json!(w);
        let verdict = lv["verdict"].as_str().unwrap_or("inconclusive").to_string();
        match verdict.as_str() {
            "violated" => worst = 1,
            "held on what was observed" => {}
            _ => {
                if worst == 0 {
                    worst = 2
                }
            }
        }
        entry["verdicts"].as_array_mut().unwrap().push(json!(verdict));
        if let Some(c) = lv["coverage"]["counters"].as_object() {
            for (k, v) in c {
                let cur = entry["counters"][k].as_u64().unwrap_or(0);
                entry["counters"][k] = json!(cur + v.as_u64().unwrap_or(0));
            }
        }
    }
    ev["coverage"]["lanes"] = Value::Object(lanes_out);
    ev["violations"] = json!(total_viol);
    ev["verdict"] = json!(match worst {
        0 => "held on what was observed",
        1 => "violated",
        _ => "inconclusive",
    });
    std::fs::write(main_path, serde_json::to_string_pretty(&ev).unwrap()).expect("write merged evidence");
    println!("C10 lanes merged into {main_path}: verdict '{}'", ev["verdict"].as_str().unwrap());
    worst
}
