//! Component 4: packet headers and coalesced-packet splitting.
//!
//! Two directions, both against an independent byte-level builder (`build`) and the shared
//! independent parser (`wire::parse_packet` / `wire::split_datagram`):
//!   * quinn-encode (`Header::encode` + `PartialEncode::finish`, hook) must produce exactly the bytes
//!     the independent builder produces for the same field values, must be parsed back field by
//!     field by the independent parser, and must round-trip through `PartialDecode::new` +
//!     `PartialDecode::finish` (hook) to the identical typed header, header bytes and payload;
//!   * independently built packets - including shapes quinn never emits: 1/4/8-byte Length and
//!     token-length varints, reserved bits set, fixed bit clear (grease), unsupported versions -
//!     must be decoded by `ProtectedHeader::decode` / `PartialDecode` to the same fields.
//! Coalescing: datagrams of k = 1..4 packets must be split by `PartialDecode::new` at exactly the
//! encoded boundaries (sizes and remainder bytes), identically to the independent splitter.
//! Header protection keys: identity (`qv::nullcrypto::NullHeaderKey`) and an XOR mask derived from
//! the sample (so the packet-number length bits really are protected on the wire).

use std::io;

use bytes::BytesMut;
use proto::{
    crypto::HeaderKey,
    verif::{header_encode, partial_decode_finish, partial_decode_info, VHeader},
    ConnectionId, FixedLengthConnectionIdParser, LongType, PacketDecodeError, PartialDecode, ProtectedHeader, DEFAULT_SUPPORTED_VERSIONS,
};
use qv::{
    check::{run_group, CaseOut, Ctx, Group, Report},
    nullcrypto::NullHeaderKey,
    util::{mac128, Rng},
    wire::{self, PType},
};

use crate::{common::*, Cfg, Lane};

pub struct XorHp(pub u64);

impl XorHp {
    fn apply(&self, pn_offset: usize, packet: &mut [u8], decrypt: bool) {
        if packet.len() < pn_offset + 4 + 16 {
            return;
        }
        let mask = mac128(self.0, &[&packet[pn_offset + 4..pn_offset + 20]]);
        let bits = if packet[0] & 0x80 != 0 { 0x0f } else { 0x1f };
        let pn_len;
        if decrypt {
            packet[0] ^= mask[0] & bits;
            pn_len = (packet[0] & 3) as usize + 1;
        } else {
            pn_len = (packet[0] & 3) as usize + 1;
            packet[0] ^= mask[0] & bits;
        }
        for i in 0..pn_len {
            packet[pn_offset + i] ^= mask[1 + i];
        }
    }
}

impl HeaderKey for XorHp {
    fn decrypt(&self, pn_offset: usize, packet: &mut [u8]) {
        self.apply(pn_offset, packet, true)
    }
    fn encrypt(&self, pn_offset: usize, packet: &mut [u8]) {
        self.apply(pn_offset, packet, false)
    }
    fn sample_size(&self) -> usize {
        16
    }
}

/// Observation key (not judged): quinn applies its fixed-bit check before it looks at the version,
/// so a Version Negotiation packet whose "Unused" bit 0x40 is clear is dropped unless
/// grease_quic_bit is on (RFC 9000 §17.2.1 asks clients to ignore the Unused field; servers SHOULD
/// set 0x40 and quinn's own always do). The property is about encodings the library produces, and
/// production never produces such a packet, so this is recorded, not judged.
pub const VN_UNUSED_BIT: &str = "header: version negotiation packet with the unused bit 0x40 clear is rejected as 'fixed bit unset'";

#[derive(Debug, Clone)]
pub struct Spec {
    pub ty: PType,
    pub version: u32,
    pub dcid: Vec<u8>,
    pub scid: Vec<u8>,
    pub token: Vec<u8>,
    pub pn_len: usize,
    pub pn: u32,
    pub payload: Vec<u8>,
    pub spin: bool,
    pub key_phase: bool,
    /// reserved bits (already positioned: 0x0c long, 0x18 short)
    pub reserved: u8,
    pub fixed_bit: bool,
    pub len_width: usize,
    pub token_len_width: usize,
    /// low 7 bits of the first byte of a version negotiation packet
    pub random: u8,
}

fn pn_bytes(pn: u32, len: usize) -> Vec<u8> {
    pn.to_be_bytes()[4 - len..].to_vec()
}

/// Independent builder: RFC 9000 §17 byte layout, unprotected.
pub fn build(s: &Spec) -> Vec<u8> {
    let mut o = Vec::new();
    let fixed = if s.fixed_bit { 0x40 } else { 0 };
    match s.ty {
        PType::Short => {
            o.push(fixed | (s.spin as u8) << 5 | s.reserved | (s.key_phase as u8) << 2 | (s.pn_len as u8 - 1));
            o.extend_from_slice(&s.dcid);
            o.extend_from_slice(&pn_bytes(s.pn, s.pn_len));
            o.extend_from_slice(&s.payload);
        }
        PType::VersionNegotiation => {
            o.push(0x80 | (s.random & 0x7f));
            o.extend_from_slice(&0u32.to_be_bytes());
            o.push(s.dcid.len() as u8);
            o.extend_from_slice(&s.dcid);
            o.push(s.scid.len() as u8);
            o.extend_from_slice(&s.scid);
            o.extend_from_slice(&s.payload);
        }
        _ => {
            let tybits = match s.ty {
                PType::Initial => 0,
                PType::ZeroRtt => 1,
                PType::Handshake => 2,
                _ => 3,
            };
            let low = if s.ty == PType::Retry { s.reserved & 0x0f } else { s.reserved | (s.pn_len as u8 - 1) };
            o.push(0x80 | fixed | tybits << 4 | low);
            o.extend_from_slice(&s.version.to_be_bytes());
            o.push(s.dcid.len() as u8);
            o.extend_from_slice(&s.dcid);
            o.push(s.scid.len() as u8);
            o.extend_from_slice(&s.scid);
            if s.ty == PType::Retry {
                o.extend_from_slice(&s.payload);
                return o;
            }
            if s.ty == PType::Initial {
                wire::put_var_len(&mut o, s.token.len() as u64, s.token_len_width);
                o.extend_from_slice(&s.token);
            }
            wire::put_var_len(&mut o, (s.pn_len + s.payload.len()) as u64, s.len_width);
            o.extend_from_slice(&pn_bytes(s.pn, s.pn_len));
            o.extend_from_slice(&s.payload);
        }
    }
    o
}

fn cidv(c: &[u8]) -> ConnectionId {
    ConnectionId::new(c)
}

fn to_vheader(s: &Spec) -> VHeader {
    match s.ty {
        PType::Initial => {
            VHeader::Initial { dst_cid: cidv(&s.dcid), src_cid: cidv(&s.scid), token: s.token.clone(), version: s.version, pn_len: s.pn_len, pn: s.pn }
        }
        PType::Handshake | PType::ZeroRtt => VHeader::Long {
            ty: if s.ty == PType::Handshake { LongType::Handshake } else { LongType::ZeroRtt },
            dst_cid: cidv(&s.dcid),
            src_cid: cidv(&s.scid),
            version: s.version,
            pn_len: s.pn_len,
            pn: s.pn,
        },
        PType::Retry => VHeader::Retry { dst_cid: cidv(&s.dcid), src_cid: cidv(&s.scid), version: s.version },
        PType::Short => VHeader::Short { spin: s.spin, key_phase: s.key_phase, dst_cid: cidv(&s.dcid), pn_len: s.pn_len, pn: s.pn },
        PType::VersionNegotiation => VHeader::VersionNegotiate { random: s.random & 0x7f, dst_cid: cidv(&s.dcid), src_cid: cidv(&s.scid) },
    }
}

fn header_len(s: &Spec) -> usize {
    match s.ty {
        PType::Short => 1 + s.dcid.len() + s.pn_len,
        PType::VersionNegotiation | PType::Retry => 7 + s.dcid.len() + s.scid.len(),
        PType::Initial => 7 + s.dcid.len() + s.scid.len() + s.token_len_width + s.token.len() + s.len_width + s.pn_len,
        _ => 7 + s.dcid.len() + s.scid.len() + s.len_width + s.pn_len,
    }
}

const TYPES: [PType; 6] = [PType::Initial, PType::ZeroRtt, PType::Handshake, PType::Retry, PType::VersionNegotiation, PType::Short];

fn width_for(v: usize, r: &mut Rng, free: bool) -> usize {
    let min = wire::varint_len(v as u64);
    if !free {
        return min;
    }
    let opts: Vec<usize> = [1usize, 2, 4, 8].into_iter().filter(|w| *w >= min).collect();
    *r.pick(&opts)
}

/// `quinn_shape`: only what quinn's encoder can produce (2-byte Length, minimal token length,
/// reserved bits 0, fixed bit 1).
pub fn gen_spec(r: &mut Rng, ty: PType, quinn_shape: bool, min_payload: usize) -> Spec {
    let pn_len = 1 + r.usize(4);
    let pn = (r.u64() as u32) & (u32::MAX >> (32 - 8 * pn_len as u32));
    let payload_len = min_payload
        + match r.below(5) {
            0 => 0,
            1 => r.usize(8),
            2 if !cfg!(miri) => r.range(1100, 1400) as usize,
            _ => r.usize(if cfg!(miri) { 40 } else { 200 }),
        };
    let token = match ty {
        PType::Initial => {
            let n = match r.below(4) {
                0 => 0,
                1 => r.usize(201),
                2 => *r.pick(&[63usize, 64, 200]),
                _ => r.usize(64),
            };
            r.bytes(n)
        }
        _ => vec![],
    };
    let version = match ty {
        PType::VersionNegotiation => 0,
        _ => *r.pick(DEFAULT_SUPPORTED_VERSIONS),
    };
    let long = !matches!(ty, PType::Short);
    let reserved = if quinn_shape || r.chance(60) {
        0
    } else if ty == PType::Short {
        (r.below(4) as u8) << 3
    } else {
        (r.below(4) as u8) << 2
    };
    let dcid = cid_any(r).to_vec();
    let scid = if long { cid_any(r).to_vec() } else { vec![] };
    let len_width = if quinn_shape { 2 } else { width_for(pn_len + payload_len, r, true) };
    let token_len_width = width_for(token.len(), r, !quinn_shape);
    Spec {
        ty,
        version,
        dcid,
        scid,
        token,
        pn_len,
        pn,
        payload: r.bytes(payload_len),
        spin: r.bool(),
        key_phase: r.bool(),
        reserved,
        fixed_bit: quinn_shape || r.chance(85),
        len_width,
        token_len_width,
        // production always sets 0x40 in the unused field of a version negotiation packet
        random: r.u64() as u8 | if quinn_shape { 0x40 } else { 0 },
    }
}

fn q_partial(bytes: &[u8], local_cid_len: usize, versions: &[u32], grease: bool) -> Result<Result<(PartialDecode, Option<BytesMut>), PacketDecodeError>, String> {
    let parser = FixedLengthConnectionIdParser::new(local_cid_len);
    guard(|| PartialDecode::new(BytesMut::from(bytes), &parser, versions, grease))
}

/// quinn-encode direction for one spec (quinn shape). `key`: header protection on both sides.
fn check_quinn_encode(acc: &mut Acc, s: &Spec, key: &dyn HeaderKey, identity: bool) -> bool {
    acc.input();
    let vh = to_vheader(s);
    let (bytes, hlen) = match guard(|| header_encode(&vh, &s.payload, key)) {
        Ok(x) => x,
        Err(p) => {
            report_panic(acc, &format!("Header::encode of {vh:?}"), &s.payload, &p);
            return false;
        }
    };
    let plain = build(s);
    if hlen != header_len(s) {
        acc.viol(format!("header: Header::encode reports header_len {hlen} for {vh:?}, layout says {}", header_len(s)));
        return false;
    }
    if identity {
        if bytes != plain {
            acc.viol(format!("header: quinn encoded {vh:?} + {}-byte payload as {}, the RFC layout is {}", s.payload.len(), hex(&bytes), hex(&plain)));
            return false;
        }
        // independent parser agrees on every field
        match wire::parse_packet(&bytes, s.dcid.len()) {
            Ok(p) => {
                let ok = p.ty == s.ty
                    && (s.ty == PType::Short || p.version == s.version)
                    && p.dcid == s.dcid
                    && (s.ty == PType::Short || p.scid == s.scid)
                    && (s.ty != PType::Initial || p.token == s.token)
                    && (matches!(s.ty, PType::Retry | PType::VersionNegotiation) || (p.pn_len == s.pn_len && p.pn_trunc == s.pn as u64 && p.header_len() == hlen))
                    && p.len == bytes.len()
                    && (s.ty != PType::Short || (p.key_phase == s.key_phase && p.spin == s.spin));
                if !ok {
                    acc.viol(format!("header: quinn encoded {vh:?} as {}, which the independent parser reads as {p:?}", hex(&bytes)));
                    return false;
                }
            }
            Err(e) => {
                acc.viol(format!("header: quinn encoded {vh:?} as {}, which the independent parser rejects: {e:?}", hex(&bytes)));
                return false;
            }
        }
    } else if bytes.len() != plain.len() {
        acc.viol(format!("header: protected packet has {} bytes, plain layout {}", bytes.len(), plain.len()));
        return false;
    }
    acc.inc("header.encode_agree");
    // decode direction with quinn's own decoder
    let (pd, rest) = match q_partial(&bytes, s.dcid.len(), DEFAULT_SUPPORTED_VERSIONS, false) {
        Ok(Ok(x)) => x,
        Ok(Err(e)) => {
            if s.ty == PType::VersionNegotiation && s.random & 0x40 == 0 {
                acc.inc("note.header.vn_unused_bit_clear_rejected");
                observe(VN_UNUSED_BIT.to_string(), || format!("Header::VersionNegotiate with random={:#04x} encodes to {} which PartialDecode::new rejects: {e}", s.random & 0x7f, hex(&bytes[..hlen])));
                return true;
            } else {
                acc.viol(format!("header: PartialDecode::new rejects quinn's own encoding {} of {vh:?}: {e}", hex(&bytes)));
            }
            return false;
        }
        Err(p) => {
            report_panic(acc, "PartialDecode::new", &bytes, &p);
            return false;
        }
    };
    if rest.is_some() || pd.len() != bytes.len() || pd.dst_cid() != cidv(&s.dcid) {
        acc.viol(format!("header: PartialDecode::new on {} gives len {} rest {:?} dst_cid {}", hex(&bytes), pd.len(), rest.map(|r| r.len()), pd.dst_cid()));
        return false;
    }
    let info = partial_decode_info(&pd);
    let want_space = s.ty.space();
    if info.space != want_space
        || info.long != (s.ty != PType::Short)
        || info.initial != (s.ty == PType::Initial)
        || info.zero_rtt != (s.ty == PType::ZeroRtt)
        || info.data != bytes
        || info.initial_token_pos_len.is_some() != (s.ty == PType::Initial)
    {
        acc.viol(format!("header: PartialDecode accessors for {vh:?}: {info:?}"));
        return false;
    }
    if let Some((a, b, len)) = info.initial_token_pos_len {
        if bytes.get(a..b) != Some(&s.token[..]) || len != (s.pn_len + s.payload.len()) as u64 {
            acc.viol(format!("header: Initial token range {a}..{b} / length {len} wrong for {vh:?} in {}", hex(&bytes)));
            return false;
        }
    }
    let protected = !matches!(s.ty, PType::Retry | PType::VersionNegotiation);
    let enough = s.pn_len + s.payload.len() >= 4 + 16;
    match guard(|| partial_decode_finish(pd, Some(key))) {
        Ok(Ok(pkt)) => {
            if protected && !enough {
                acc.viol(format!("header: finish accepted a packet too short for the header protection sample: {}", hex(&bytes)));
                return false;
            }
            if pkt.header != vh || pkt.header_data != plain[..hlen] || pkt.payload != plain[hlen..] || (protected && !pkt.reserved_bits_valid) {
                acc.viol(format!(
                    "header: decode(encode({vh:?})) = {:?}, header bytes {} (expected {}), payload {} bytes (expected {}), reserved_bits_valid {}",
                    pkt.header,
                    hex(&pkt.header_data),
                    hex(&plain[..hlen]),
                    pkt.payload.len(),
                    plain.len() - hlen,
                    pkt.reserved_bits_valid
                ));
                return false;
            }
        }
        Ok(Err(e)) => {
            if !(protected && !enough) {
                acc.viol(format!("header: PartialDecode::finish rejects quinn's own encoding {} of {vh:?}: {e}", hex(&bytes)));
                return false;
            }
            acc.inc("header.too_short_for_sample_rejected");
            return true;
        }
        Err(p) => {
            report_panic(acc, "PartialDecode::finish", &bytes, &p);
            return false;
        }
    }
    acc.inc("header.roundtrip_agree");
    acc.cover("header-q", &[s.ty as u64, s.dcid.len() as u64, s.pn_len as u64, identity as u64, size_class(s.token.len() as u64)]);
    true
}

/// harness-encode direction: arbitrary legal shapes, decoded by quinn.
fn check_wire_built(acc: &mut Acc, s: &Spec, r: &mut Rng) -> bool {
    acc.input();
    let bytes = build(s);
    let grease = r.bool();
    let unsupported = s.version != 0 && !DEFAULT_SUPPORTED_VERSIONS.contains(&s.version);
    // public ProtectedHeader::decode first
    let parser = FixedLengthConnectionIdParser::new(s.dcid.len());
    let ph = match guard(|| {
        let mut c = io::Cursor::new(&bytes[..]);
        ProtectedHeader::decode(&mut c, &parser, DEFAULT_SUPPORTED_VERSIONS, grease).map(|h| (h, c.position() as usize))
    }) {
        Ok(x) => x,
        Err(p) => {
            report_panic(acc, "ProtectedHeader::decode", &bytes, &p);
            return false;
        }
    };
    let long = s.ty != PType::Short;
    let expect_fixed_err = !s.fixed_bit && !grease && s.ty != PType::VersionNegotiation;
    // note: quinn checks the fixed bit before looking at the version, so a version negotiation
    // packet with the (unused there) bit clear is rejected too unless grease is on
    let vn_fixed_err = s.ty == PType::VersionNegotiation && s.random & 0x40 == 0 && !grease;
    match &ph {
        Err(PacketDecodeError::InvalidHeader(m)) if vn_fixed_err && *m == "fixed bit unset" => {
            acc.inc("note.header.vn_unused_bit_clear_rejected");
            observe(VN_UNUSED_BIT.to_string(), || format!("independently built {} (grease off)", hex(&bytes[..header_len(s)])));
            return true;
        }
        Err(PacketDecodeError::InvalidHeader(m)) if expect_fixed_err => {
            if *m != "fixed bit unset" {
                acc.viol(format!("header: {} rejected with '{m}', expected 'fixed bit unset'", hex(&bytes)));
                return false;
            }
            acc.inc("header.fixed_bit_rejected");
            return true;
        }
        Err(PacketDecodeError::UnsupportedVersion { src_cid, dst_cid, version }) if unsupported => {
            if **src_cid != s.scid[..] || **dst_cid != s.dcid[..] || *version != s.version {
                acc.viol(format!("header: UnsupportedVersion carries {src_cid}/{dst_cid}/{version:#x} for packet {}", hex(&bytes)));
                return false;
            }
            acc.inc("header.unsupported_version_reported");
            acc.cover("header-w", &[99, s.dcid.len() as u64]);
            return true;
        }
        Err(e) => {
            acc.viol(format!("header: ProtectedHeader::decode rejects the well-formed packet {} ({s:?}): {e}", hex(&bytes)));
            return false;
        }
        Ok(_) if expect_fixed_err || unsupported => {
            acc.viol(format!("header: ProtectedHeader::decode accepted {} although fixed-bit/version rules say reject (grease={grease})", hex(&bytes)));
            return false;
        }
        Ok((h, pos)) => {
            let body = s.pn_len + s.payload.len();
            let ok = match h {
                ProtectedHeader::Initial(i) => {
                    s.ty == PType::Initial
                        && *i.dst_cid == s.dcid[..]
                        && *i.src_cid == s.scid[..]
                        && bytes.get(i.token_pos.clone()) == Some(&s.token[..])
                        && i.len == body as u64
                        && i.version == s.version
                        && *pos == header_len(s) - s.pn_len
                }
                ProtectedHeader::Long { ty, dst_cid, src_cid, len, version } => {
                    ((*ty == LongType::Handshake && s.ty == PType::Handshake) || (*ty == LongType::ZeroRtt && s.ty == PType::ZeroRtt))
                        && **dst_cid == s.dcid[..]
                        && **src_cid == s.scid[..]
                        && *len == body as u64
                        && *version == s.version
                        && *pos == header_len(s) - s.pn_len
                }
                ProtectedHeader::Retry { dst_cid, src_cid, version } => {
                    s.ty == PType::Retry && **dst_cid == s.dcid[..] && **src_cid == s.scid[..] && *version == s.version && *pos == header_len(s)
                }
                ProtectedHeader::Short { spin, dst_cid } => s.ty == PType::Short && *spin == s.spin && **dst_cid == s.dcid[..] && *pos == 1 + s.dcid.len(),
                ProtectedHeader::VersionNegotiate { random, dst_cid, src_cid } => {
                    s.ty == PType::VersionNegotiation && *random == s.random & 0x7f && **dst_cid == s.dcid[..] && **src_cid == s.scid[..] && *pos == header_len(s)
                }
            };
            if !ok || *h.dst_cid() != s.dcid[..] {
                acc.viol(format!("header: independently built {s:?} = {} decodes to {h:?} (cursor {pos})", hex(&bytes)));
                return false;
            }
        }
    }
    acc.inc("header.protected_header_agree");
    // full path with identity protection
    let (pd, rest) = match q_partial(&bytes, s.dcid.len(), DEFAULT_SUPPORTED_VERSIONS, grease) {
        Ok(Ok(x)) => x,
        Ok(Err(e)) => {
            acc.viol(format!("header: PartialDecode::new rejects {} accepted by ProtectedHeader::decode: {e}", hex(&bytes)));
            return false;
        }
        Err(p) => {
            report_panic(acc, "PartialDecode::new", &bytes, &p);
            return false;
        }
    };
    if rest.is_some() || pd.len() != bytes.len() {
        acc.viol(format!("header: PartialDecode::new split a single packet {} into {} + {:?}", hex(&bytes), pd.len(), rest.map(|r| r.len())));
        return false;
    }
    let protected = !matches!(s.ty, PType::Retry | PType::VersionNegotiation);
    let enough = s.pn_len + s.payload.len() >= 20;
    match guard(|| partial_decode_finish(pd, Some(&NullHeaderKey))) {
        Ok(Ok(pkt)) => {
            let want = to_vheader(s);
            let hl = header_len(s);
            if pkt.header != want || pkt.header_data != bytes[..hl] || pkt.payload != bytes[hl..] || pkt.reserved_bits_valid != (s.reserved == 0 || !protected) {
                // reserved bits of Retry/VN are not reserved bits; quinn's mask still applies to
                // them, which production never consults for those types
                if pkt.header == want && pkt.header_data == bytes[..hl] && pkt.payload == bytes[hl..] && !protected {
                    acc.inc("header.reserved_bits_of_unprotected_types_ignored");
                } else {
                    acc.viol(format!(
                        "header: independently built {s:?} = {} decodes to {:?} / header {} / payload {} bytes / reserved_bits_valid {}",
                        hex(&bytes),
                        pkt.header,
                        hex(&pkt.header_data),
                        pkt.payload.len(),
                        pkt.reserved_bits_valid
                    ));
                    return false;
                }
            }
            if protected && !enough {
                acc.viol(format!("header: finish accepted a packet too short for the sample: {}", hex(&bytes)));
                return false;
            }
        }
        Ok(Err(e)) => {
            if !(protected && !enough) {
                acc.viol(format!("header: PartialDecode::finish rejects well-formed {}: {e}", hex(&bytes)));
                return false;
            }
        }
        Err(p) => {
            report_panic(acc, "PartialDecode::finish", &bytes, &p);
            return false;
        }
    }
    // harness self-check: the shared parser reads its own layout
    if s.fixed_bit && long && s.ty != PType::VersionNegotiation {
        match wire::parse_packet(&bytes, s.dcid.len()) {
            Ok(p) if p.ty == s.ty && p.dcid == s.dcid && p.scid == s.scid && p.len == bytes.len() && p.token == if s.ty == PType::Retry { s.payload.clone() } else { s.token.clone() } => {}
            other => harness_error(format!("wire::parse_packet misreads {s:?} = {}: {other:?}", hex(&bytes))),
        }
    }
    acc.inc("header.wire_built_agree");
    acc.cover("header-w", &[s.ty as u64, s.dcid.len() as u64, s.len_width as u64, s.token_len_width as u64, (s.reserved != 0) as u64, s.fixed_bit as u64]);
    true
}

fn coalesce_case(acc: &mut Acc, r: &mut Rng) {
    acc.input();
    let k = 1 + r.usize(4);
    let local_len = r.usize(21);
    let mut specs = Vec::new();
    for i in 0..k {
        let last = i + 1 == k;
        let ty = if last { *r.pick(&TYPES) } else { *r.pick(&[PType::Initial, PType::ZeroRtt, PType::Handshake]) };
        let qs = r.bool();
        let mut s = gen_spec(r, ty, qs, 20);
        s.fixed_bit = true;
        s.random |= 0x40;
        if s.payload.len() > 400 {
            s.payload.truncate(400);
        }
        if ty == PType::Short {
            s.dcid = r.bytes(local_len);
        }
        // an endpoint's packets in one datagram share cids; not required for splitting
        specs.push(s);
    }
    let use_quinn_encoder = r.bool();
    let mut dgram = Vec::new();
    let mut lens = Vec::new();
    for s in &specs {
        let b = if use_quinn_encoder && s.len_width == 2 && s.reserved == 0 && s.token_len_width == wire::varint_len(s.token.len() as u64) {
            header_encode(&to_vheader(s), &s.payload, &NullHeaderKey).0
        } else {
            build(s)
        };
        lens.push(b.len());
        dgram.extend_from_slice(&b);
    }
    // optional trailing garbage after a long-header last packet (it has an explicit length)
    let garbage = if matches!(specs[k - 1].ty, PType::Initial | PType::ZeroRtt | PType::Handshake) && r.chance(25) { { let n_ = 1 + r.usize(30); r.bytes(n_) } } else { vec![] };
    dgram.extend_from_slice(&garbage);

    // quinn side
    let mut got = Vec::new();
    let mut buf = BytesMut::from(&dgram[..]);
    let mut offset = 0usize;
    loop {
        let parser = FixedLengthConnectionIdParser::new(local_len);
        let res = guard(|| PartialDecode::new(buf.clone(), &parser, DEFAULT_SUPPORTED_VERSIONS, false));
        match res {
            Ok(Ok((pd, rest))) => {
                got.push(pd.len());
                let info = partial_decode_info(&pd);
                if info.data != dgram[offset..offset + pd.len()] {
                    acc.viol(format!("coalesce: packet {} of datagram {} holds bytes {} instead of the slice at {offset}", got.len(), hex(&dgram), hex(&info.data)));
                    return;
                }
                offset += pd.len();
                match rest {
                    Some(rest) => {
                        if rest[..] != dgram[offset..] {
                            acc.viol(format!("coalesce: remainder after packet {} of {} is {} instead of {}", got.len(), hex(&dgram), hex(&rest), hex(&dgram[offset..])));
                            return;
                        }
                        if got.len() == k {
                            // what is left is the garbage
                            break;
                        }
                        buf = rest;
                    }
                    None => break,
                }
            }
            Ok(Err(e)) => {
                acc.viol(format!("coalesce: PartialDecode::new fails on packet {} of {} (lengths {lens:?}): {e}", got.len() + 1, hex(&dgram)));
                return;
            }
            Err(p) => {
                report_panic(acc, "PartialDecode::new", &dgram, &p);
                return;
            }
        }
    }
    if got != lens || dgram.len() - offset != garbage.len() {
        acc.viol(format!("coalesce: datagram {} built from packets of {lens:?} bytes (+{} trailing) was split into {got:?}", hex(&dgram), garbage.len()));
        return;
    }
    // independent splitter (cannot parse trailing garbage; only check clean datagrams)
    if garbage.is_empty() {
        match wire::split_datagram(&dgram, local_len) {
            Ok(v) if v.iter().map(|(_, r)| r.len()).collect::<Vec<_>>() == lens => {}
            other => harness_error(format!("wire::split_datagram on {} (lengths {lens:?}): {:?}", hex(&dgram), other.map(|v| v.into_iter().map(|x| x.1).collect::<Vec<_>>()))),
        }
    }
    acc.inc("coalesce.split_agree");
    acc.cover("coalesce", &[k as u64, specs[k - 1].ty as u64, use_quinn_encoder as u64, !garbage.is_empty() as u64]);
}

fn random_case(seed: u64, per_case: u64, trace: bool) -> CaseOut {
    let mut acc = Acc::new(trace);
    let mut r = Rng::new(seed);
    let xor = XorHp(seed);
    // one probe per batch for the full value range of Header::VersionNegotiate::random
    let mut vn = gen_spec(&mut r, PType::VersionNegotiation, true, 20);
    vn.random = r.u64() as u8;
    check_quinn_encode(&mut acc, &vn, &NullHeaderKey, true);
    for i in 0..per_case {
        let ty = TYPES[(i % 6) as usize];
        match i % 4 {
            0 => {
                let mp = if r.chance(10) { 0 } else { 20 };
                let s = gen_spec(&mut r, ty, true, mp);
                check_quinn_encode(&mut acc, &s, &NullHeaderKey, true);
            }
            1 => {
                let s = gen_spec(&mut r, ty, true, 20);
                check_quinn_encode(&mut acc, &s, &xor, false);
            }
            2 => {
                let mp = if r.chance(10) { 0 } else { 20 };
                let mut s = gen_spec(&mut r, ty, false, mp);
                if ty != PType::VersionNegotiation && r.chance(15) {
                    // unsupported versions, including greased ones
                    s.version = *r.pick(&[2u32, 0x0a0a_0a0a, 0xff00_001c, 0xff00_0023, 0x6b33_43cf, u32::MAX]);
                }
                check_wire_built(&mut acc, &s, &mut r);
            }
            _ => coalesce_case(&mut acc, &mut r),
        }
        if acc.out.viol.len() >= 4 {
            break;
        }
    }
    if seed % 41 == 0 {
        let s = gen_spec(&mut r, PType::Initial, true, 20);
        sample("headers", serde_json::json!({"spec": format!("{:?}", to_vheader(&s)), "bytes": hex(&build(&s))}));
    }
    acc.finish()
}

/// Systematic part: every type x every dcid length 0..=20 x every pn length x token lengths 0..=200
fn sweep_case(idx: u64, seed: u64, trace: bool) -> CaseOut {
    let mut acc = Acc::new(trace);
    let mut r = Rng::new(seed ^ idx);
    let ty = TYPES[idx as usize % 6];
    let xor = XorHp(seed ^ 0x55);
    for cl in 0..=20usize {
        for pn_len in 1..=4usize {
            let toks: Vec<usize> = if ty == PType::Initial && cl % 5 == 0 { (0..=200).collect() } else { vec![0, 63, 64] };
            for tl in toks {
                let mut s = gen_spec(&mut r, ty, true, 20);
                s.dcid = r.bytes(cl);
                if ty != PType::Short {
                    s.scid = r.bytes(20 - cl);
                }
                s.pn_len = pn_len;
                s.pn &= u32::MAX >> (32 - 8 * pn_len as u32);
                if ty == PType::Initial {
                    s.token = r.bytes(tl);
                    s.token_len_width = wire::varint_len(tl as u64);
                }
                for &v in DEFAULT_SUPPORTED_VERSIONS {
                    if ty != PType::VersionNegotiation {
                        s.version = v;
                    }
                    for bits in 0..4u8 {
                        s.spin = bits & 1 != 0;
                        s.key_phase = bits & 2 != 0;
                        check_quinn_encode(&mut acc, &s, &NullHeaderKey, true);
                        if ty != PType::Short {
                            break;
                        }
                    }
                    if ty == PType::VersionNegotiation || tl > 64 {
                        break;
                    }
                }
                check_quinn_encode(&mut acc, &s, &xor, false);
                let mut w = s.clone();
                for lw in [1usize, 2, 4, 8] {
                    if lw >= wire::varint_len((w.pn_len + w.payload.len()) as u64) {
                        w.len_width = lw;
                        check_wire_built(&mut acc, &w, &mut r);
                    }
                }
                if acc.out.viol.len() >= 4 {
                    return acc.finish();
                }
            }
        }
    }
    acc.finish()
}

pub fn run(ctx: &Ctx, cfg: &Cfg, rep: &mut Report) {
    if cfg.shard.0 == 0 && cfg.lane != Lane::Miri {
        let g = Group { name: "headers-type-x-cidlen-x-pnlen-x-tokenlen", cases: 6, budget_s: 1e9, exhaustive: true };
        run_group(ctx, rep, &g, |idx, _, tr| sweep_case(idx, ctx.seed, tr));
    }
    let per_case = cfg.per_case(512, 4096, 8);
    let g = Group { name: "headers-random", cases: cfg.cases(2560, 8192), budget_s: cfg.budget(20.0, 240.0, 0.12), exhaustive: false };
    run_group(ctx, rep, &g, |_, seed, tr| random_case(seed, per_case, tr));
}
