//! Component 6: address-validation tokens (crate-private `Token`, hook H3), stateless reset
//! tokens, `ConnectionId` and the two built-in connection-id generators.
//!
//! Tokens use `qv::nullcrypto::NullTokenKey` (keyed-hash stream + 16-byte MAC behind quinn's public
//! `HandshakeTokenKey`/`AeadKey` traits), so the harness can also *seal arbitrary plaintexts* and
//! drive the payload decoder behind the AEAD with authenticated garbage.
//!   * encode -> decode identity (payload and nonce) for Retry and Validation payloads over v4/v6
//!     addresses, every cid length, boundary-biased times;
//!   * every truncation, every single-bit flip and extensions of a valid token decode to `None`;
//!   * sealed arbitrary plaintexts: `Some(v)` exactly when the independent payload parser accepts,
//!     with the same value; never a panic.

use std::net::{IpAddr, Ipv4Addr, Ipv6Addr, SocketAddr};

use proto::{
    crypto::{HandshakeTokenKey, HmacKey},
    verif::{cid_decode_long, cid_encode_long, reset_token, token_decode, token_encode, VTokenPayload},
    ConnectionId, ConnectionIdGenerator, HashedConnectionIdGenerator, RandomConnectionIdGenerator,
};
use qv::{
    check::{run_group, CaseOut, Ctx, Group, Report},
    nullcrypto::{NullHmacKey, NullTokenKey},
    util::Rng,
    wire,
};

use crate::{common::*, Cfg};

fn gen_ip(r: &mut Rng) -> IpAddr {
    match r.below(6) {
        0 => IpAddr::V4(Ipv4Addr::UNSPECIFIED),
        1 => IpAddr::V6(Ipv6Addr::LOCALHOST),
        2 => IpAddr::V4(Ipv4Addr::BROADCAST),
        3 => IpAddr::V4(Ipv4Addr::from(r.u64() as u32)),
        4 => IpAddr::V6(Ipv4Addr::from(r.u64() as u32).to_ipv6_mapped()),
        _ => IpAddr::V6(Ipv6Addr::from((r.u64() as u128) << 64 | r.u64() as u128)),
    }
}

fn gen_secs(r: &mut Rng) -> u64 {
    match r.below(6) {
        0 => 0,
        1 => 1,
        2 => 1_790_000_000 + r.below(1 << 20),
        3 => u32::MAX as u64 + r.below(3),
        4 => 1 << r.range(1, 40),
        _ => r.below(1 << 40),
    }
}

pub fn gen_payload(r: &mut Rng) -> VTokenPayload {
    if r.bool() {
        let rp = r.u64() as u16;
        let port = *r.pick(&[0u16, 1, 443, 65535, rp]);
        VTokenPayload::Retry { address: SocketAddr::new(gen_ip(r), port), orig_dst_cid: cid_any(r), issued_secs: gen_secs(r) }
    } else {
        VTokenPayload::Validation { ip: gen_ip(r), issued_secs: gen_secs(r) }
    }
}

/// Independent encoding of the token plaintext (token.rs layout), with a raw seconds field.
pub fn plain_of(p: &VTokenPayload, secs_override: Option<u64>) -> Vec<u8> {
    let mut v = Vec::new();
    let ip = |v: &mut Vec<u8>, ip: &IpAddr| match ip {
        IpAddr::V4(a) => {
            v.push(0);
            v.extend_from_slice(&a.octets());
        }
        IpAddr::V6(a) => {
            v.push(1);
            v.extend_from_slice(&a.octets());
        }
    };
    match p {
        VTokenPayload::Retry { address, orig_dst_cid, issued_secs } => {
            v.push(0);
            ip(&mut v, &address.ip());
            v.extend_from_slice(&address.port().to_be_bytes());
            v.push(orig_dst_cid.len() as u8);
            v.extend_from_slice(orig_dst_cid);
            v.extend_from_slice(&secs_override.unwrap_or(*issued_secs).to_be_bytes());
        }
        VTokenPayload::Validation { ip: a, issued_secs } => {
            v.push(1);
            ip(&mut v, a);
            v.extend_from_slice(&secs_override.unwrap_or(*issued_secs).to_be_bytes());
        }
    }
    v
}

/// Independent parser of the token plaintext: the value and the raw seconds field.
pub fn parse_plain(b: &[u8]) -> Option<(VTokenPayload, u64)> {
    let mut r = wire::Rd::new(b);
    let ty = r.u8().ok()?;
    let ip = |r: &mut wire::Rd| -> Option<IpAddr> {
        match r.u8().ok()? {
            0 => Some(IpAddr::V4(Ipv4Addr::from(<[u8; 4]>::try_from(r.take(4).ok()?).unwrap()))),
            1 => Some(IpAddr::V6(Ipv6Addr::from(<[u8; 16]>::try_from(r.take(16).ok()?).unwrap()))),
            _ => None,
        }
    };
    let out = match ty {
        0 => {
            let a = ip(&mut r)?;
            let port = r.u16().ok()?;
            let cl = r.u8().ok()? as usize;
            if cl > 20 {
                return None;
            }
            let c = ConnectionId::new(r.take(cl).ok()?);
            let secs = r.u64().ok()?;
            (VTokenPayload::Retry { address: SocketAddr::new(a, port), orig_dst_cid: c, issued_secs: secs }, secs)
        }
        1 => {
            let a = ip(&mut r)?;
            let secs = r.u64().ok()?;
            (VTokenPayload::Validation { ip: a, issued_secs: secs }, secs)
        }
        _ => return None,
    };
    if r.left() != 0 {
        return None;
    }
    Some(out)
}

/// Seal an arbitrary plaintext exactly like `Token::encode` does (AEAD keyed from the nonce,
/// empty AAD, nonce appended in little-endian).
pub fn seal(key: &NullTokenKey, plain: &[u8], nonce: u128) -> Vec<u8> {
    let nb = nonce.to_le_bytes();
    let aead = key.aead_from_hkdf(&nb);
    let mut buf = plain.to_vec();
    aead.seal(&mut buf, &[]).unwrap();
    buf.extend_from_slice(&nb);
    buf
}

fn q_token_decode(acc: &mut Acc, key: &NullTokenKey, raw: &[u8], what: &str) -> Option<Option<(VTokenPayload, u128)>> {
    match guard(|| token_decode(key, raw)) {
        Ok(x) => Some(x),
        Err(p) => {
            report_panic(acc, what, raw, &p);
            None
        }
    }
}

fn token_case(acc: &mut Acc, r: &mut Rng, deep: bool) {
    acc.input();
    let key = NullTokenKey(r.u64());
    let payload = gen_payload(r);
    let (tok, nonce) = token_encode(&key, &payload, r.u64());
    // the encoding is the sealed independent plaintext
    let want = seal(&key, &plain_of(&payload, None), nonce);
    if tok != want {
        acc.viol(format!("token: {payload:?} (nonce {nonce:#x}) encoded as {}, the documented layout gives {}", hex(&tok), hex(&want)));
        return;
    }
    match q_token_decode(acc, &key, &tok, "Token::decode") {
        Some(Some((p, n))) if p == payload && n == nonce => {}
        Some(other) => {
            acc.viol(format!("token: decode(encode({payload:?}, nonce {nonce:#x})) = {other:?} (token {})", hex(&tok)));
            return;
        }
        None => return,
    }
    acc.inc("token.roundtrip_agree");
    let kind = matches!(payload, VTokenPayload::Retry { .. }) as u64;
    acc.cover("token", &[kind, tok.len() as u64]);
    // a different key must not open it
    if let Some(Some(x)) = q_token_decode(acc, &NullTokenKey(r.u64()), &tok, "Token::decode") {
        acc.viol(format!("token: token {} opened under a different key as {x:?}", hex(&tok)));
    }
    // every truncation
    for n in (0..tok.len()).step_by(if cfg!(miri) { 5 } else { 1 }) {
        if let Some(Some(x)) = q_token_decode(acc, &key, &tok[..n], "Token::decode") {
            acc.viol(format!("token: {}-byte truncation of token {} decoded to {x:?}", n, hex(&tok)));
            return;
        }
    }
    acc.add("token.truncations_rejected", tok.len() as u64);
    // every single-bit flip (deep) or a sample of them
    let bits = tok.len() * 8;
    let step = if cfg!(miri) { 29 + r.usize(7) } else if deep { 1 } else { 1 + r.usize(7) };
    let mut i = r.usize(step);
    let mut flips = 0;
    while i < bits {
        let mut t = tok.clone();
        t[i / 8] ^= 1 << (i % 8);
        if let Some(Some(x)) = q_token_decode(acc, &key, &t, "Token::decode") {
            acc.viol(format!("token: token {} with bit {i} flipped decoded to {x:?}", hex(&tok)));
            return;
        }
        flips += 1;
        i += step;
    }
    acc.add("token.bitflips_rejected", flips);
    // extensions (front, back)
    for _ in 0..4 {
        let mut t = tok.clone();
        let extra = { let n_ = 1 + r.usize(16); r.bytes(n_) };
        if r.bool() {
            t.extend_from_slice(&extra);
        } else {
            t.splice(0..0, extra);
        }
        if let Some(Some(x)) = q_token_decode(acc, &key, &t, "Token::decode") {
            acc.viol(format!("token: extended token {} decoded to {x:?}", hex(&t)));
            return;
        }
    }
    acc.add("token.extensions_rejected", 4);
}

/// Authenticated arbitrary plaintext: the payload decoder behind the AEAD must be total and agree
/// with the independent parser.
fn sealed_plain_case(acc: &mut Acc, r: &mut Rng) {
    acc.input();
    let key = NullTokenKey(r.u64());
    let base = gen_payload(r);
    let plain = match r.below(5) {
        0 => plain_of(&base, Some(r.u64())),                                           // any 64-bit seconds value
        1 => plain_of(&base, Some(*r.pick(&[i64::MAX as u64, i64::MAX as u64 + 1, u64::MAX, 1 << 62, 1 << 55]))),
        2 => mutate(r, &plain_of(&base, None)),
        3 => rand_bytes(r, 60),
        _ => {
            let p = plain_of(&base, None);
            let n = r.usize(p.len() + 1);
            p[..n].to_vec()
        }
    };
    let tok = seal(&key, &plain, (r.u64() as u128) << 64 | r.u64() as u128);
    let want = parse_plain(&plain);
    let Some(got) = q_token_decode(acc, &key, &tok, "Token::decode (authentic token, arbitrary plaintext)") else { return };
    // a seconds value `SystemTime` cannot hold has no decoded value: only "rejected" is acceptable
    let representable = want.as_ref().is_some_and(|(_, secs)| std::time::UNIX_EPOCH.checked_add(std::time::Duration::from_secs(*secs)).is_some());
    match (&got, &want) {
        (None, None) => acc.inc("token.sealed_plain_rejected_by_both"),
        (None, Some(_)) if !representable => acc.inc("token.sealed_plain_unrepresentable_time_rejected"),
        (Some((p, _)), Some((w, _))) if p == w => acc.inc("token.sealed_plain_agree"),
        _ => {
            acc.viol(format!("token: authentic token with plaintext {} decodes to {got:?}, the independent parser says {want:?}", hex(&plain)));
            return;
        }
    }
    acc.cover("token-plain", &[want.is_some() as u64, plain.first().copied().unwrap_or(9) as u64 & 3]);
}

fn cid_case(acc: &mut Acc, r: &mut Rng) {
    acc.input();
    // ConnectionId value semantics
    let len = r.usize(21);
    let bytes = r.bytes(len);
    let c = ConnectionId::new(&bytes);
    let mut rd = &bytes[..];
    let c2 = ConnectionId::from_buf(&mut rd, len);
    if c != c2 || &c[..] != &bytes[..] || c.len() != len || format!("{c}") != hex(&bytes) || format!("{c:?}") != format!("{bytes:?}") || !rd.is_empty() {
        acc.viol(format!("cid: ConnectionId::new/from_buf/Display/Debug disagree for {}", hex(&bytes)));
        return;
    }
    // long-header form
    let enc = cid_encode_long(&c);
    let mut want = vec![len as u8];
    want.extend_from_slice(&bytes);
    if enc != want {
        acc.viol(format!("cid: encode_long({}) = {}", hex(&bytes), hex(&enc)));
        return;
    }
    let mut with_tail = enc.clone();
    with_tail.extend_from_slice(&{ let n_ = r.usize(4); r.bytes(n_) });
    match guard(|| cid_decode_long(&with_tail)) {
        Ok(Some((d, used))) if d == c && used == enc.len() => {}
        Ok(other) => {
            acc.viol(format!("cid: decode_long({}) = {other:?}", hex(&with_tail)));
            return;
        }
        Err(p) => {
            report_panic(acc, "ConnectionId::decode_long", &with_tail, &p);
            return;
        }
    }
    // too long / truncated
    let bad_len = r.range(21, 255) as u8;
    let mut bad = vec![bad_len];
    bad.extend_from_slice(&r.bytes(bad_len as usize));
    let trunc = &enc[..r.usize(enc.len())];
    for (b, why) in [(&bad[..], "length > 20"), (trunc, "truncated")] {
        match guard(|| cid_decode_long(b)) {
            Ok(None) => {}
            Ok(Some(x)) => {
                acc.viol(format!("cid: decode_long of {} ({why}) returned {x:?}", hex(b)));
                return;
            }
            Err(p) => {
                report_panic(acc, "ConnectionId::decode_long", b, &p);
                return;
            }
        }
    }
    acc.inc("cid.long_form_agree");
    // reset token = first 16 bytes of the HMAC signature of the cid
    let hk = NullHmacKey(r.u64());
    let (raw, shown) = reset_token(&hk, &c);
    let mut sig = vec![0u8; hk.signature_len()];
    hk.sign(&c, &mut sig);
    if raw[..] != sig[..16] || shown != hex(&raw) {
        acc.viol(format!("reset token: for cid {c} got {} / '{shown}', the key's signature starts {}", hex(&raw), hex(&sig[..16])));
        return;
    }
    acc.inc("reset_token.agree");
    // generators
    let mut rg = RandomConnectionIdGenerator::new(len);
    let g = rg.generate_cid();
    if g.len() != len || rg.cid_len() != len || rg.validate(g).is_err() {
        acc.viol(format!("cid generator: RandomConnectionIdGenerator::new({len}) produced {g} / cid_len {}", rg.cid_len()));
        return;
    }
    let k = r.u64();
    let mut hg = HashedConnectionIdGenerator::from_key(k);
    let g = hg.generate_cid();
    if g.len() != 8 || hg.cid_len() != 8 || hg.validate(g).is_err() || HashedConnectionIdGenerator::from_key(k).validate(g).is_err() {
        acc.viol(format!("cid generator: HashedConnectionIdGenerator(key {k:#x}) does not validate its own cid {g}"));
        return;
    }
    acc.inc("cid.generate_validate_ok");
    // rejection of foreign cids is probabilistic: counted, not judged
    if HashedConnectionIdGenerator::from_key(k ^ (1 << r.below(64))).validate(g).is_ok() {
        acc.inc("cid.hashed_validate_accepted_other_key");
    } else {
        acc.inc("cid.hashed_validate_rejected_other_key");
    }
    let foreign = ConnectionId::new(&r.bytes(8));
    match hg.validate(foreign) {
        Ok(()) => acc.inc("cid.hashed_validate_accepted_random"),
        Err(_) => acc.inc("cid.hashed_validate_rejected_random"),
    }
    // validate() is a decoder of attacker-chosen bytes: any length must give Ok/Err
    match guard(|| hg.validate(c)) {
        Ok(_) => acc.inc("cid.hashed_validate_any_length_total"),
        Err(p) => report_panic(acc, &format!("HashedConnectionIdGenerator::validate on a {len}-byte cid"), &bytes, &p),
    }
    acc.cover("cid", &[len as u64]);
}

fn random_case(seed: u64, per_case: u64, deep_every: u64, trace: bool) -> CaseOut {
    let mut acc = Acc::new(trace);
    let mut r = Rng::new(seed);
    for i in 0..per_case {
        match i % 3 {
            0 => token_case(&mut acc, &mut r, i % deep_every == 0),
            1 => sealed_plain_case(&mut acc, &mut r),
            _ => cid_case(&mut acc, &mut r),
        }
        if acc.out.viol.len() >= 4 {
            break;
        }
    }
    if seed % 29 == 0 {
        let p = gen_payload(&mut r);
        let (t, n) = token_encode(&NullTokenKey(1), &p, 2);
        sample("tokens", serde_json::json!({"payload": format!("{p:?}"), "nonce": format!("{n:#x}"), "token": hex(&t)}));
    }
    acc.finish()
}

pub fn run(ctx: &Ctx, cfg: &Cfg, rep: &mut Report) {
    let per_case = cfg.per_case(96, 768, 3);
    let g = Group { name: "tokens-cids", cases: cfg.cases(1280, 4096), budget_s: cfg.budget(15.0, 150.0, 0.08), exhaustive: false };
    run_group(ctx, rep, &g, |_, seed, tr| random_case(seed, per_case, 9, tr));
}
