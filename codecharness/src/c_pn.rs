//! Component 2: packet-number truncation and expansion (crate-private `PacketNumber`, hook H3).
//!
//! Receiver-state window (DESIGN C10): a sender that has seen `la` acknowledged encodes `n > la`
//! with `PacketNumber::new(n, la)`. A compliant receiver has received at least `la` (it acknowledged
//! it), so its largest received number `rx` satisfies `la <= rx`, and it expands against
//! `expected = rx + 1`. RFC 9000 A.3 guarantees recovery when `n` lies in
//! `(expected - hwin, expected + hwin]` where `hwin` is half the window of the encoding chosen.
//! The upper bound holds by construction (`2 (n - la) < win`), the lower bound is
//! `rx + 1 - n < hwin`. For every such triple: `expand(decode(encode(new(n, la))), rx + 1) == n`.
//!
//! Enumeration per encoding-size boundary (`n - la` around 2^7, 2^15, 2^23, 2^31): every `d = n - la`
//! in `[2^b - W, 2^b + W)`, every `la` of a list of bases chosen to straddle multiples of each
//! window size (plus seeded ones and the top of the 62-bit space), and every `rx` in the first
//! `SPAN` and the last `SPAN` admissible positions (`SPAN` = 2^17 in thorough: for the 1- and
//! 2-byte encodings that is the entire admissible receiver window).

use proto::verif::{pn_decode_expand, pn_decode_len, pn_encode, pn_roundtrip};
use qv::{
    check::{run_group, CaseOut, Ctx, Group, Report, Tier},
    util::Rng,
    wire,
};

use crate::{common::*, Cfg, Lane};

const PN_MAX: u64 = (1 << 62) - 1;

fn bases(seed: u64, n: usize) -> Vec<u64> {
    let mut r = Rng::new(seed ^ 0xBA5E);
    let mut v = vec![
        0,
        1,
        (1 << 8) - 3,
        (1 << 16) - 40_000,
        (1 << 24) - (1 << 23) - 5,
        (1 << 32) - (1u64 << 31) - 9,
        (1 << 32) + 77,
        PN_MAX - (1u64 << 33),
    ];
    while v.len() < n {
        let bits = r.range(8, 61);
        v.push(r.u64() & ((1u64 << bits) - 1));
    }
    v.truncate(n.max(1));
    v
}

#[inline]
fn judge(acc: &mut Acc, la: u64, n: u64, rx: u64) -> bool {
    let expected = rx + 1;
    let (len, trunc, got) = pn_roundtrip(n, la, expected);
    if got != n {
        acc.viol(format!(
            "packet number: sent n={n} (largest_acked={la}, {len}-byte encoding {trunc:#x}), receiver with largest received rx={rx} expands it to {got}"
        ));
        return false;
    }
    // differential: independent length rule and independent expansion
    let wl = wire::pn_len(n, Some(la));
    if wl != len {
        // the normative rule: the encoding must represent more than twice the distance to la
        let need = 2 * (n - la);
        let min_len = (1..=4).find(|l| need < 1u64 << (8 * l)).unwrap_or(5);
        if min_len != len {
            acc.viol(format!("packet number: new({n}, {la}) chose {len} bytes, RFC 9000 §17.1 requires {min_len}"));
        } else {
            harness_error(format!("wire::pn_len({n}, {la}) = {wl}, quinn and the normative rule say {len}"));
        }
        return false;
    }
    let wd = wire::pn_decode(expected, trunc as u64, len);
    if wd != n {
        harness_error(format!("wire::pn_decode({expected}, {trunc:#x}, {len}) = {wd}, sent {n}"));
        return false;
    }
    true
}

struct WinPlan {
    b: u32,
    wd: u64,
    span: u64,
    bases: Vec<u64>,
}

/// One case = one (boundary, base) pair, all d and rx of the plan.
fn window_case(p: &WinPlan, base_idx: usize, trace: bool) -> CaseOut {
    let mut acc = Acc::new(trace);
    let la = p.bases[base_idx];
    let big_d = 1u64 << p.b;
    let mut judged = 0u64;
    let mut lens_seen = [0u64; 5];
    'outer: for d in big_d - p.wd..big_d + p.wd {
        let n = la + d;
        // 2 (n - la) must stay below 2^32: beyond that no encoding exists (`new` panics by contract)
        if n > PN_MAX || d >= 1 << 31 {
            break;
        }
        let (len, _) = pn_encode(n, la);
        lens_seen[len] += 1;
        let hwin = 1u64 << (8 * len - 1);
        // admissible j = rx - la: 0 <= j < hwin + d - 1
        let jmax = hwin + d - 1;
        let a_end = p.span.min(jmax);
        for j in 0..a_end {
            if !judge(&mut acc, la, n, la + j) && acc.out.viol.len() >= 4 {
                break 'outer;
            }
        }
        judged += a_end;
        let b_start = (jmax.saturating_sub(p.span)).max(a_end);
        for j in b_start..jmax {
            if la + j >= PN_MAX {
                break;
            }
            if !judge(&mut acc, la, n, la + j) && acc.out.viol.len() >= 4 {
                break 'outer;
            }
            judged += 1;
        }
        if jmax <= 2 * p.span {
            acc.inc("pn.full_receiver_windows");
        }
    }
    acc.inputs(judged);
    acc.add("pn.triples_expanded", judged);
    for (l, c) in lens_seen.iter().enumerate() {
        if *c > 0 {
            acc.cover("pn-window", &[p.b as u64, l as u64, base_idx as u64]);
        }
    }
    if base_idx == 0 && p.b == 15 {
        sample(
            "packet-number",
            serde_json::json!({"largest_acked": la, "n": la + big_d, "encoding": hex(&pn_encode(la + big_d, la).1[..pn_encode(la + big_d, la).0]),
                "receiver_rx_window": [la, la + (1u64 << 15) + big_d - 2]}),
        );
    }
    acc.finish()
}

/// Random triples over the whole 62-bit space + byte-level API (encode/decode split, decode_len)
fn sampled_case(seed: u64, per_case: u64, trace: bool) -> CaseOut {
    let mut acc = Acc::new(trace);
    let mut r = Rng::new(seed);
    let mut ok = 0;
    for i in 0..per_case {
        let la = match r.below(4) {
            0 => vi(&mut r),
            1 => PN_MAX - r.below(1 << 33) - 2,
            _ => r.u64() & ((1u64 << r.range(1, 62)) - 1),
        }
        .min(PN_MAX - 2);
        // distance: boundary-biased below 2^31
        let dmax = ((1u64 << 31) - 1).min(PN_MAX - la);
        let d = match r.below(3) {
            0 => {
                let b = *r.pick(&[7u32, 15, 23, 31]);
                ((1u64 << b) + r.below(9)).saturating_sub(4)
            }
            1 => 1 + r.below(300),
            _ => 1 + (r.u64() & ((1u64 << r.range(1, 31)) - 1)),
        }
        .clamp(1, dmax.max(1));
        let n = la + d;
        let (len, bytes) = pn_encode(n, la);
        let hwin = 1u64 << (8 * len - 1);
        let jmax = hwin + d - 1;
        let j = match r.below(4) {
            0 => r.below(jmax.min(8)),
            1 => jmax - 1 - r.below(jmax.min(8)),
            2 => d - 1, // in-order arrival
            _ => r.below(jmax),
        };
        let rx = (la + j).min(PN_MAX - 1);
        if judge(&mut acc, la, n, rx) {
            ok += 1;
        }
        // byte-level API: encode, then decode+expand from the bytes; truncated input must be Err
        match pn_decode_expand(&bytes[..len], len, rx + 1) {
            Ok(x) if x == n => {}
            other => acc.viol(format!("packet number: decode+expand of {} (len {len}) at expected {} yields {other:?}, sent {n}", hex(&bytes[..len]), rx + 1)),
        }
        if len > 1 {
            // (the 3-byte arm uses `Buf::get_uint`, which asserts instead of returning Err; production
            // never gets there because `decrypt_header` checks for pn_offset + 4 + sample bytes first:
            // counted, not judged)
            match guard(|| pn_decode_expand(&bytes[..len - 1], len, rx + 1)) {
                Ok(x) => {
                    if x.is_ok() {
                        acc.viol(format!("packet number: decode of {}-byte number from {} bytes succeeded", len, len - 1));
                    }
                }
                Err(_) => acc.inc("pn.short_buffer_assert_in_decode_u24_unreachable_in_production"),
            }
        }
        if i < 16 {
            acc.cover("pn-sampled", &[len as u64, (la.leading_zeros() / 8) as u64, (j == d - 1) as u64]);
            let first = r.u64() as u8;
            if pn_decode_len(first) != (first & 3) as usize + 1 {
                acc.viol(format!("packet number: decode_len({first:#x}) wrong"));
            }
        }
    }
    acc.inputs(per_case);
    acc.add("pn.triples_expanded", ok);
    acc.finish()
}

pub fn run(ctx: &Ctx, cfg: &Cfg, rep: &mut Report) {
    let thorough = ctx.tier == Tier::Thorough;
    let (wd, span, nb) = match (cfg.lane, thorough) {
        (Lane::Fast, true) => (128, 1 << 17, 16),
        (Lane::Fast, false) => (8, 1 << 13, 6),
        (Lane::Asan, true) => (16, 1 << 15, 8),
        (Lane::Asan, false) => (4, 1 << 11, 4),
        (Lane::Miri, _) => (1, 16, 2),
    };
    if cfg.shard.0 == 0 {
        for b in [7u32, 15, 23, 31] {
            let plan = WinPlan { b, wd, span, bases: bases(ctx.seed, nb) };
            let name: &'static str = match b {
                7 => "pn-window-2^7",
                15 => "pn-window-2^15",
                23 => "pn-window-2^23",
                _ => "pn-window-2^31",
            };
            // exhaustive over the stated finite sub-space (all d, all bases, all admissible rx in the spans)
            let g = Group { name, cases: plan.bases.len() as u64, budget_s: 1e9, exhaustive: true };
            run_group(ctx, rep, &g, |idx, _, tr| window_case(&plan, idx as usize, tr));
        }
    }
    let per_case = cfg.per_case(1 << 13, 1 << 15, 32);
    let g = Group { name: "pn-sampled", cases: cfg.cases(256, 2048), budget_s: cfg.budget(10.0, 120.0, 0.12), exhaustive: false };
    run_group(ctx, rep, &g, |_, seed, tr| sampled_case(seed, per_case, tr));
}
