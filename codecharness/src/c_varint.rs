//! Component 1: variable-length integers through the public `coding::Codec` impl of `VarInt`.
//!
//! Oracles: encode->decode identity; encoded length minimal and equal to `wire::varint_len`; encoded
//! bytes equal to `wire::put_var`; every non-minimal encoding decodes to the same value (RFC 9000
//! §16 allows them everywhere except the frame type); differential against `wire::Rd::var` on
//! every input; every 1- and 2-byte string decodes to what the independent decoder says.

use proto::{coding::Codec, VarInt};
use qv::{
    check::{run_group, Ctx, Group, Report},
    util::Rng,
    wire,
};

use crate::{common::*, Cfg, Lane};

#[inline]
fn q_encode(v: u64, buf: &mut [u8; 8]) -> Option<usize> {
    let x = VarInt::from_u64(v).ok()?;
    let mut w = &mut buf[..];
    x.encode(&mut w);
    Some(8 - w.len())
}

#[inline]
fn q_decode(bytes: &[u8]) -> Option<(u64, usize)> {
    let mut r = bytes;
    let v = VarInt::decode(&mut r).ok()?;
    Some((v.into_inner(), bytes.len() - r.len()))
}

/// Full check of one value; returns false on the first failed oracle (message pushed to acc).
#[inline]
fn check_value(acc: &mut Acc, v: u64, scratch: &mut Vec<u8>) -> bool {
    let mut buf = [0u8; 8];
    let Some(n) = q_encode(v, &mut buf) else {
        acc.viol(format!("varint: VarInt::from_u64({v}) refused a value below 2^62"));
        return false;
    };
    let want_len = wire::varint_len(v);
    if n != want_len {
        acc.viol(format!("varint: value {v} encoded in {n} bytes, minimal length is {want_len}"));
        return false;
    }
    scratch.clear();
    wire::put_var(scratch, v);
    if scratch[..] != buf[..n] {
        acc.viol(format!("varint: value {v} encoded as {} but the independent encoder gives {}", hex(&buf[..n]), hex(scratch)));
        return false;
    }
    match q_decode(&buf[..n]) {
        Some((back, used)) if back == v && used == n => {}
        other => {
            acc.viol(format!("varint: encode->decode of {v} ({}) yields {other:?}", hex(&buf[..n])));
            return false;
        }
    }
    match wire::Rd::new(&buf[..n]).var() {
        Ok(w) if w == v => {}
        other => {
            harness_error(format!("wire::Rd::var on {} gives {other:?}, expected {v}", hex(&buf[..n])));
            return false;
        }
    }
    // one byte short must be UnexpectedEnd, never a value
    if n > 1 {
        if let Some(x) = q_decode(&buf[..n - 1]) {
            acc.viol(format!("varint: truncated encoding {} decoded to {x:?}", hex(&buf[..n - 1])));
            return false;
        }
    }
    // every wider (non-minimal) encoding decodes to the same value
    for len in [2usize, 4, 8] {
        if len <= want_len {
            continue;
        }
        scratch.clear();
        wire::put_var_len(scratch, v, len);
        match q_decode(scratch) {
            Some((back, used)) if back == v && used == len => {}
            other => {
                acc.viol(format!("varint: non-minimal encoding {} of {v} decodes to {other:?}", hex(scratch)));
                return false;
            }
        }
    }
    true
}

fn range_case(lo: u64, hi: u64, trace: bool) -> qv::check::CaseOut {
    let mut acc = Acc::new(trace);
    let mut scratch = Vec::with_capacity(8);
    let mut ok = 0u64;
    for v in lo..hi {
        if check_value(&mut acc, v, &mut scratch) {
            ok += 1;
        } else if acc.out.viol.len() >= 4 {
            break;
        }
    }
    acc.inputs(hi - lo);
    acc.add("varint.values_roundtripped", ok);
    acc.add("varint.nonminimal_decoded", (lo..hi).map(|v| 3 - size_class(v)).sum::<u64>().min(ok * 3));
    if ok > 0 {
        acc.cover("varint", &[size_class(lo), lo >> 20]);
    }
    acc.finish()
}

/// Every 1-byte and 2-byte string through the decoder, compared with the independent decoder.
fn all_short_strings(trace: bool) -> qv::check::CaseOut {
    let mut acc = Acc::new(trace);
    let mut n = 0u64;
    let judge = |acc: &mut Acc, b: &[u8]| {
        let q = q_decode(b);
        let mut rd = wire::Rd::new(b);
        let w = rd.var().ok().map(|v| (v, rd.p));
        if q != w {
            acc.viol(format!("varint: decode of bytes {} yields {q:?}, independent decoder yields {w:?}", hex(b)));
        }
    };
    judge(&mut acc, &[]);
    for a in 0..=255u8 {
        judge(&mut acc, &[a]);
        n += 1;
        for b in 0..=255u8 {
            judge(&mut acc, &[a, b]);
            n += 1;
        }
    }
    acc.inputs(n + 1);
    acc.add("varint.short_strings_decoded", n + 1);
    acc.cover("varint", &[100]);
    acc.finish()
}

fn sampled_case(seed: u64, per_case: u64, trace: bool) -> qv::check::CaseOut {
    let mut acc = Acc::new(trace);
    let mut r = Rng::new(seed);
    let mut scratch = Vec::with_capacity(8);
    let mut ok = 0;
    for i in 0..per_case {
        // boundary-biased over the whole domain, with extra weight on the 8-byte class
        let v = if i % 2 == 0 { r.range(1 << 30, VARINT_MAX) } else { vi(&mut r) };
        let v = if i % 16 == 3 { (1u64 << r.range(30, 61)) - 1 + r.below(3) } else { v };
        if check_value(&mut acc, v, &mut scratch) {
            ok += 1;
            if i < 64 {
                acc.cover("varint", &[size_class(v), 200 + v.leading_zeros() as u64]);
            }
        }
        // values at and above 2^62 must be refused by every constructor
        if i % 64 == 0 {
            let big = (1u64 << 62) + r.below(1 << 20) * (r.below(1 << 40) + 1);
            if VarInt::from_u64(big).is_ok() || VarInt::try_from(big as u128).is_ok() || VarInt::try_from(big).is_ok() {
                acc.viol(format!("varint: VarInt accepted the out-of-range value {big}"));
            }
            if VarInt::try_from(u128::from(u64::MAX) + 1 + r.u64() as u128).is_ok() {
                acc.viol("varint: VarInt::try_from(u128 above u64::MAX) succeeded".into());
            }
            let small = r.u64() as u32;
            if VarInt::from_u32(small).into_inner() != small as u64 || u64::from(VarInt::from(small)) != small as u64 {
                acc.viol(format!("varint: from_u32({small}) does not round-trip"));
            }
        }
    }
    acc.inputs(per_case);
    acc.add("varint.values_roundtripped", ok);
    if seed % 97 == 0 {
        sample("varint", serde_json::json!({"value": VARINT_MAX, "encoding": "ffffffffffffffff", "nonminimal_of_5": ["4005", "80000005", "c000000000000005"]}));
    }
    acc.finish()
}

pub fn run(ctx: &Ctx, cfg: &Cfg, rep: &mut Report) {
    let first = cfg.shard.0 == 0;
    if first {
        if cfg.lane == Lane::Miri {
            // both size boundaries; the full enumeration belongs to the compiled lanes
            let g = Group { name: "varint-boundary-values", cases: 2, budget_s: 1e9, exhaustive: true };
            run_group(ctx, rep, &g, |idx, _, tr| if idx == 0 { range_case(0, 192, tr) } else { range_case((1 << 14) - 64, (1 << 14) + 64, tr) });
        } else {
            let g = Group { name: "varint-1-2-byte-values", cases: 1, budget_s: 1e9, exhaustive: true };
            run_group(ctx, rep, &g, |_, _, tr| range_case(0, 1 << 14, tr));
        }
        if cfg.lane != Lane::Miri {
            let g = Group { name: "varint-all-1-2-byte-strings", cases: 1, budget_s: 1e9, exhaustive: true };
            run_group(ctx, rep, &g, |_, _, tr| all_short_strings(tr));
        }
    }
    const CHUNK: u64 = 1 << 20;
    if cfg.lane == Lane::Fast && ctx.tier == qv::check::Tier::Thorough && first {
        // all 2^30 values that need at most 4 bytes
        let g = Group { name: "varint-4-byte-values", cases: (1 << 30) / CHUNK, budget_s: 1e9, exhaustive: true };
        run_group(ctx, rep, &g, |idx, _, tr| range_case(idx * CHUNK, (idx + 1) * CHUNK, tr));
    } else {
        // windows at both ends of the 4-byte class and seeded windows inside it
        let n = if cfg.lane == Lane::Miri { 0 } else { cfg.cases(96, 96) };
        if n > 0 {
            let g = Group { name: "varint-4-byte-windows", cases: n, budget_s: 60.0, exhaustive: false };
            let w = if cfg.lane == Lane::Fast { 1 << 16 } else { 1 << 13 };
            run_group(ctx, rep, &g, |idx, seed, tr| {
                let lo = match idx {
                    0 => 1 << 14,
                    1 => (1 << 30) - w,
                    _ => (1 << 14) + Rng::new(seed).below((1 << 30) - (1 << 14) - w),
                };
                range_case(lo, lo + w, tr)
            });
        }
    }
    let per_case = cfg.per_case(1 << 14, 1 << 16, 64);
    let g = Group { name: "varint-8-byte-sampled", cases: cfg.cases(256, 2048), budget_s: cfg.budget(10.0, 120.0, 0.10), exhaustive: false };
    run_group(ctx, rep, &g, |_, seed, tr| sampled_case(seed, per_case, tr));
}
