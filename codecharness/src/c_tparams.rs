//! Component 5: transport parameters (public `TransportParameters::{read, write}`).
//!
//! The check owns an independent TLV codec for the RFC 9000 §18 / RFC 9221 / RFC 9287 /
//! ack-frequency-draft parameters (`Tp`, `encode_items`, `strict_decode`) with the validity rules of
//! those documents. Oracles:
//!   * valid set (all optional and server-only parameters, unknown/reserved ones, any order, any
//!     legal varint width) -> `read(side)` succeeds and every field (hook getter `tp_fields`)
//!     equals the generated value; `write` -> `read` gives an equal value (`PartialEq`);
//!     `write` output decodes with the independent decoder to the same set; `Debug` rendering
//!     mentions the generated values;
//!   * production-shaped parameters (`TransportParameters::new` via hook: random reserved parameter,
//!     random serialisation order, plus server-only fields) -> `write` -> independent decoder and
//!     `read` agree with the field values;
//!   * invalid set (one invalidating edit of a valid set, by category) -> `Err`, never a value,
//!     never a panic.

use std::{
    net::{Ipv4Addr, Ipv6Addr, SocketAddrV4, SocketAddrV6},
    sync::Arc,
};

use proto::{
    transport_parameters::TransportParameters,
    verif::{tp_fields, tp_new, VPreferredAddress, VServerOnly, VTransportParameters},
    ConnectionId, EndpointConfig, IdleTimeout, RandomConnectionIdGenerator, ServerConfig, Side, TransportConfig, VarInt,
};
use qv::{
    check::{run_group, CaseOut, Ctx, Group, Report},
    nullcrypto::{NullHmacKey, NullServerConfig, NullShared, NullTokenKey},
    util::Rng,
    wire,
};

use crate::{common::*, Cfg};

pub const ID_ORIGINAL_DST_CID: u64 = 0x00;
pub const ID_RESET_TOKEN: u64 = 0x02;
pub const ID_DISABLE_MIGRATION: u64 = 0x0c;
pub const ID_PREFERRED_ADDRESS: u64 = 0x0d;
pub const ID_INITIAL_SRC_CID: u64 = 0x0f;
pub const ID_RETRY_SRC_CID: u64 = 0x10;
pub const ID_MAX_DATAGRAM: u64 = 0x20;
pub const ID_GREASE_QUIC_BIT: u64 = 0x2ab2;
pub const ID_MIN_ACK_DELAY: u64 = 0xff04_de1b;

/// (id, default, name) of the integer parameters, in `VTransportParameters` field order
pub const INTS: [(u64, u64, &str); 11] = [
    (0x01, 0, "max_idle_timeout"),
    (0x03, 65527, "max_udp_payload_size"),
    (0x04, 0, "initial_max_data"),
    (0x05, 0, "initial_max_stream_data_bidi_local"),
    (0x06, 0, "initial_max_stream_data_bidi_remote"),
    (0x07, 0, "initial_max_stream_data_uni"),
    (0x08, 0, "initial_max_streams_bidi"),
    (0x09, 0, "initial_max_streams_uni"),
    (0x0a, 3, "ack_delay_exponent"),
    (0x0b, 25, "max_ack_delay"),
    (0x0e, 2, "active_connection_id_limit"),
];

fn known_id(id: u64) -> bool {
    INTS.iter().any(|x| x.0 == id)
        || matches!(
            id,
            ID_ORIGINAL_DST_CID | ID_RESET_TOKEN | ID_DISABLE_MIGRATION | ID_PREFERRED_ADDRESS | ID_INITIAL_SRC_CID | ID_RETRY_SRC_CID | ID_MAX_DATAGRAM | ID_GREASE_QUIC_BIT | ID_MIN_ACK_DELAY
        )
}

#[derive(Debug, Clone, PartialEq, Eq)]
pub struct Pa {
    pub v4: ([u8; 4], u16),
    pub v6: ([u8; 16], u16),
    pub cid: Vec<u8>,
    pub token: [u8; 16],
}

#[derive(Debug, Clone, PartialEq, Eq, Default)]
pub struct Tp {
    pub ints: [Option<u64>; 11],
    pub disable_active_migration: bool,
    pub max_datagram_frame_size: Option<u64>,
    pub initial_src_cid: Option<Vec<u8>>,
    pub grease_quic_bit: bool,
    pub min_ack_delay: Option<u64>,
    pub original_dst_cid: Option<Vec<u8>>,
    pub retry_src_cid: Option<Vec<u8>>,
    pub stateless_reset_token: Option<[u8; 16]>,
    pub preferred_address: Option<Pa>,
}

impl Tp {
    pub fn int(&self, i: usize) -> u64 {
        self.ints[i].unwrap_or(INTS[i].1)
    }
    fn has_server_only(&self) -> bool {
        self.original_dst_cid.is_some() || self.retry_src_cid.is_some() || self.stateless_reset_token.is_some() || self.preferred_address.is_some()
    }
    /// The RFC's semantic rules (after structural decoding). `reader` is the side that reads.
    fn semantic_error(&self, reader: Side) -> Option<&'static str> {
        if self.int(8) > 20 {
            return Some("ack_delay_exponent above its maximum");
        }
        if self.int(9) >= 1 << 14 {
            return Some("max_ack_delay above its maximum");
        }
        if self.int(10) < 2 {
            return Some("active_connection_id_limit below its minimum");
        }
        if self.int(1) < 1200 {
            return Some("max_udp_payload_size below its minimum");
        }
        if self.int(6) > 1 << 60 || self.int(7) > 1 << 60 {
            return Some("initial_max_streams above the stream count limit");
        }
        if let Some(m) = self.min_ack_delay {
            if m > self.int(9) * 1000 {
                return Some("min_ack_delay > max_ack_delay");
            }
        }
        if reader == Side::Server && self.has_server_only() {
            return Some("server-only parameter sent by a client");
        }
        if let Some(pa) = &self.preferred_address {
            if pa.cid.is_empty() {
                return Some("preferred_address with empty connection id");
            }
        }
        None
    }
}

pub fn pa_bytes(pa: &Pa) -> Vec<u8> {
    let mut v = Vec::new();
    v.extend_from_slice(&pa.v4.0);
    v.extend_from_slice(&pa.v4.1.to_be_bytes());
    v.extend_from_slice(&pa.v6.0);
    v.extend_from_slice(&pa.v6.1.to_be_bytes());
    v.push(pa.cid.len() as u8);
    v.extend_from_slice(&pa.cid);
    v.extend_from_slice(&pa.token);
    v
}

#[derive(Debug, Clone, PartialEq, Eq)]
pub struct Item {
    pub id: u64,
    pub value: Vec<u8>,
    /// declared length (normally value.len())
    pub len: u64,
}

fn var_bytes(v: u64, width: usize) -> Vec<u8> {
    let mut o = Vec::new();
    wire::put_var_len(&mut o, v, width);
    o
}

/// Model -> wire items. `r` chooses varint widths (`minimal` forces the shortest form).
pub fn items_of(tp: &Tp, r: &mut Rng, minimal: bool) -> Vec<Item> {
    let mut width = |v: u64| {
        let min = wire::varint_len(v);
        if minimal {
            min
        } else {
            let o: Vec<usize> = [1usize, 2, 4, 8].into_iter().filter(|w| *w >= min).collect();
            *r.pick(&o)
        }
    };
    let mut items = Vec::new();
    let mut push = |id: u64, value: Vec<u8>| items.push(Item { id, len: value.len() as u64, value });
    for (i, (id, _, _)) in INTS.iter().enumerate() {
        if let Some(v) = tp.ints[i] {
            push(*id, var_bytes(v, width(v)));
        }
    }
    if tp.disable_active_migration {
        push(ID_DISABLE_MIGRATION, vec![]);
    }
    if let Some(v) = tp.max_datagram_frame_size {
        push(ID_MAX_DATAGRAM, var_bytes(v, width(v)));
    }
    if let Some(c) = &tp.initial_src_cid {
        push(ID_INITIAL_SRC_CID, c.clone());
    }
    if tp.grease_quic_bit {
        push(ID_GREASE_QUIC_BIT, vec![]);
    }
    if let Some(v) = tp.min_ack_delay {
        push(ID_MIN_ACK_DELAY, var_bytes(v, width(v)));
    }
    if let Some(c) = &tp.original_dst_cid {
        push(ID_ORIGINAL_DST_CID, c.clone());
    }
    if let Some(c) = &tp.retry_src_cid {
        push(ID_RETRY_SRC_CID, c.clone());
    }
    if let Some(t) = &tp.stateless_reset_token {
        push(ID_RESET_TOKEN, t.to_vec());
    }
    if let Some(pa) = &tp.preferred_address {
        push(ID_PREFERRED_ADDRESS, pa_bytes(pa));
    }
    items
}

pub fn encode_items(items: &[Item], r: Option<&mut Rng>) -> Vec<u8> {
    let mut out = Vec::new();
    let mut r = r;
    for it in items {
        let mut w = |out: &mut Vec<u8>, v: u64| match &mut r {
            None => wire::put_var(out, v),
            Some(r) => {
                let min = wire::varint_len(v);
                let o: Vec<usize> = [1usize, 2, 4, 8].into_iter().filter(|w| *w >= min).collect();
                wire::put_var_len(out, v, *r.pick(&o));
            }
        };
        w(&mut out, it.id);
        w(&mut out, it.len);
        out.extend_from_slice(&it.value);
    }
    out
}

pub fn param_name(id: u64) -> &'static str {
    if let Some(x) = INTS.iter().find(|x| x.0 == id) {
        return x.2;
    }
    match id {
        ID_ORIGINAL_DST_CID => "original_destination_connection_id",
        ID_RESET_TOKEN => "stateless_reset_token",
        ID_DISABLE_MIGRATION => "disable_active_migration",
        ID_PREFERRED_ADDRESS => "preferred_address",
        ID_INITIAL_SRC_CID => "initial_source_connection_id",
        ID_RETRY_SRC_CID => "retry_source_connection_id",
        ID_MAX_DATAGRAM => "max_datagram_frame_size",
        ID_GREASE_QUIC_BIT => "grease_quic_bit",
        ID_MIN_ACK_DELAY => "min_ack_delay",
        _ => "unknown",
    }
}

/// Independent strict decoder: structure + duplicates + per-parameter length rules.
pub fn strict_decode(bytes: &[u8]) -> Result<(Tp, Vec<u64>), String> {
    let mut rd = wire::Rd::new(bytes);
    let mut tp = Tp::default();
    let mut seen: Vec<u64> = Vec::new();
    let mut unknown = Vec::new();
    while rd.left() > 0 {
        let id = rd.var().map_err(|_| "truncated id".to_string())?;
        let len = rd.var().map_err(|_| "truncated length".to_string())?;
        if len > rd.left() as u64 {
            return Err("length exceeds buffer".to_string());
        }
        let v = rd.take(len as usize).unwrap();
        if !known_id(id) {
            unknown.push(id);
            continue;
        }
        if seen.contains(&id) {
            return Err(format!("duplicate parameter {}", param_name(id)));
        }
        seen.push(id);
        let one_var = |v: &[u8]| -> Result<u64, String> {
            let mut r = wire::Rd::new(v);
            let x = r.var().map_err(|_| format!("{} value is not a varint of the declared length", param_name(id)))?;
            if r.left() != 0 {
                return Err(format!("{} value is not a varint of the declared length", param_name(id)));
            }
            Ok(x)
        };
        let cid = |v: &[u8]| -> Result<Vec<u8>, String> {
            if v.len() > 20 {
                Err(format!("{} longer than the maximum connection id", param_name(id)))
            } else {
                Ok(v.to_vec())
            }
        };
        if let Some(i) = INTS.iter().position(|x| x.0 == id) {
            tp.ints[i] = Some(one_var(v).map_err(|_| format!("integer parameter value is not a varint of the declared length: {}", param_name(id)))?);
            continue;
        }
        match id {
            ID_ORIGINAL_DST_CID => tp.original_dst_cid = Some(cid(v)?),
            ID_INITIAL_SRC_CID => tp.initial_src_cid = Some(cid(v)?),
            ID_RETRY_SRC_CID => tp.retry_src_cid = Some(cid(v)?),
            ID_RESET_TOKEN => tp.stateless_reset_token = Some(v.try_into().map_err(|_| "reset token not 16 bytes".to_string())?),
            ID_DISABLE_MIGRATION => {
                if !v.is_empty() {
                    return Err("disable_active_migration with a value".to_string());
                }
                tp.disable_active_migration = true;
            }
            ID_GREASE_QUIC_BIT => {
                if !v.is_empty() {
                    return Err("grease_quic_bit with a value".to_string());
                }
                tp.grease_quic_bit = true;
            }
            ID_MAX_DATAGRAM => tp.max_datagram_frame_size = Some(one_var(v)?),
            ID_MIN_ACK_DELAY => tp.min_ack_delay = Some(one_var(v)?),
            ID_PREFERRED_ADDRESS => {
                if v.len() < 41 {
                    return Err("preferred_address too short".to_string());
                }
                let cl = v[24] as usize;
                if cl > 20 || v.len() != 41 + cl {
                    return Err("preferred_address length mismatch".to_string());
                }
                let pa = Pa {
                    v4: (v[0..4].try_into().unwrap(), u16::from_be_bytes([v[4], v[5]])),
                    v6: (v[6..22].try_into().unwrap(), u16::from_be_bytes([v[22], v[23]])),
                    cid: v[25..25 + cl].to_vec(),
                    token: v[25 + cl..].try_into().unwrap(),
                };
                if pa.v4 == ([0; 4], 0) && pa.v6 == ([0; 16], 0) {
                    return Err("preferred_address without any address".to_string());
                }
                tp.preferred_address = Some(pa);
            }
            _ => unreachable!(),
        }
    }
    Ok((tp, unknown))
}

/// Structure + semantics as one verdict.
pub fn strict_validate(bytes: &[u8], reader: Side) -> Result<Tp, String> {
    let (tp, _) = strict_decode(bytes)?;
    match tp.semantic_error(reader) {
        Some(e) => Err(e.to_string()),
        None => Ok(tp),
    }
}

/// Does any integer-valued parameter use a longer-than-minimal varint? (legal per RFC 9000 §16)
pub fn has_nonminimal_int(bytes: &[u8]) -> bool {
    let mut rd = wire::Rd::new(bytes);
    while rd.left() > 0 {
        let (Ok(id), Ok(len)) = (rd.var(), rd.var()) else { return false };
        let Ok(v) = rd.take(len as usize) else { return false };
        if INTS.iter().any(|x| x.0 == id) || id == ID_MAX_DATAGRAM || id == ID_MIN_ACK_DELAY {
            if let Ok(x) = wire::Rd::new(v).var() {
                if wire::varint_len(x) != v.len() {
                    return true;
                }
            }
        }
    }
    false
}

/// Same parameter list with every integer value re-written in its minimal varint form.
pub fn minimal_reencoding(bytes: &[u8]) -> Vec<u8> {
    let mut rd = wire::Rd::new(bytes);
    let mut items = Vec::new();
    while rd.left() > 0 {
        let (Ok(id), Ok(len)) = (rd.var(), rd.var()) else { break };
        let Ok(v) = rd.take(len as usize) else { break };
        let mut value = v.to_vec();
        if INTS.iter().any(|x| x.0 == id) || id == ID_MAX_DATAGRAM || id == ID_MIN_ACK_DELAY {
            if let Ok(x) = wire::Rd::new(v).var() {
                value = var_bytes(x, wire::varint_len(x));
            }
        }
        items.push(Item { id, len: value.len() as u64, value });
    }
    encode_items(&items, None)
}

pub const NONMINIMAL_REJECTED: &str =
    "transport parameters: valid set rejected because an integer value uses a longer-than-minimal varint (the same set with minimal varints is accepted)";

/// Is a rejected valid set rejected only because of longer-than-minimal varint values? (checked
/// by re-submitting the same set in minimal form)
pub fn nonminimal_only(bytes: &[u8], reader: Side) -> bool {
    if has_nonminimal_int(bytes) {
        let m = minimal_reencoding(bytes);
        return matches!(guard(|| TransportParameters::read(reader, &mut &m[..])), Ok(Ok(_)));
    }
    false
}

/// The field view quinn must report for `tp`.
pub fn expected_fields(tp: &Tp) -> VTransportParameters {
    let c = |c: &Option<Vec<u8>>| c.as_ref().map(|c| ConnectionId::new(c));
    VTransportParameters {
        max_idle_timeout: tp.int(0),
        max_udp_payload_size: tp.int(1),
        initial_max_data: tp.int(2),
        initial_max_stream_data_bidi_local: tp.int(3),
        initial_max_stream_data_bidi_remote: tp.int(4),
        initial_max_stream_data_uni: tp.int(5),
        initial_max_streams_bidi: tp.int(6),
        initial_max_streams_uni: tp.int(7),
        ack_delay_exponent: tp.int(8),
        max_ack_delay: tp.int(9),
        active_connection_id_limit: tp.int(10),
        disable_active_migration: tp.disable_active_migration,
        max_datagram_frame_size: tp.max_datagram_frame_size,
        initial_src_cid: c(&tp.initial_src_cid),
        grease_quic_bit: tp.grease_quic_bit,
        min_ack_delay: tp.min_ack_delay,
        original_dst_cid: c(&tp.original_dst_cid),
        retry_src_cid: c(&tp.retry_src_cid),
        stateless_reset_token: tp.stateless_reset_token,
        preferred_address: tp.preferred_address.as_ref().map(|pa| VPreferredAddress {
            address_v4: if pa.v4 == ([0; 4], 0) { None } else { Some(SocketAddrV4::new(Ipv4Addr::from(pa.v4.0), pa.v4.1)) },
            address_v6: if pa.v6 == ([0; 16], 0) { None } else { Some(SocketAddrV6::new(Ipv6Addr::from(pa.v6.0), pa.v6.1, 0, 0)) },
            connection_id: ConnectionId::new(&pa.cid),
            stateless_reset_token: pa.token,
        }),
        has_grease_transport_parameter: false,
        write_order: None,
    }
}

fn tp_of_fields(f: &VTransportParameters) -> Tp {
    let ints = [
        f.max_idle_timeout,
        f.max_udp_payload_size,
        f.initial_max_data,
        f.initial_max_stream_data_bidi_local,
        f.initial_max_stream_data_bidi_remote,
        f.initial_max_stream_data_uni,
        f.initial_max_streams_bidi,
        f.initial_max_streams_uni,
        f.ack_delay_exponent,
        f.max_ack_delay,
        f.active_connection_id_limit,
    ];
    let mut tp = Tp::default();
    for i in 0..11 {
        tp.ints[i] = Some(ints[i]);
    }
    tp.disable_active_migration = f.disable_active_migration;
    tp.max_datagram_frame_size = f.max_datagram_frame_size;
    tp.initial_src_cid = f.initial_src_cid.map(|c| c.to_vec());
    tp.grease_quic_bit = f.grease_quic_bit;
    tp.min_ack_delay = f.min_ack_delay;
    tp.original_dst_cid = f.original_dst_cid.map(|c| c.to_vec());
    tp.retry_src_cid = f.retry_src_cid.map(|c| c.to_vec());
    tp.stateless_reset_token = f.stateless_reset_token;
    tp.preferred_address = f.preferred_address.map(|p| Pa {
        v4: p.address_v4.map_or(([0; 4], 0), |a| (a.ip().octets(), a.port())),
        v6: p.address_v6.map_or(([0; 16], 0), |a| (a.ip().octets(), a.port())),
        cid: p.connection_id.to_vec(),
        token: p.stateless_reset_token,
    });
    tp
}

/// All integer parameters materialised with their defaults (for value comparison).
fn with_defaults(tp: &Tp) -> Tp {
    let mut t = tp.clone();
    for i in 0..11 {
        t.ints[i] = Some(tp.int(i));
    }
    t
}

fn gen_pa(r: &mut Rng) -> Pa {
    let mut pa = Pa {
        v4: (r.bytes(4).try_into().unwrap(), r.u64() as u16),
        v6: (r.bytes(16).try_into().unwrap(), r.u64() as u16),
        cid: { let n_ = 1 + r.usize(20); r.bytes(n_) },
        token: r.bytes(16).try_into().unwrap(),
    };
    match r.below(4) {
        0 => pa.v4 = ([0; 4], 0),
        1 => pa.v6 = ([0; 16], 0),
        2 => pa.v4.1 = 0, // unspecified port alone does not make the address absent
        _ => {}
    }
    if pa.v4 == ([0; 4], 0) && pa.v6 == ([0; 16], 0) {
        pa.v6.1 = 443;
    }
    pa
}

/// Random VALID set as sent by `sender`.
pub fn gen_valid(r: &mut Rng, sender: Side) -> Tp {
    let mut tp = Tp::default();
    let all = r.chance(15);
    for i in 0..11 {
        if all || r.chance(60) {
            let v = match i {
                1 => {
                    if r.bool() {
                        *r.pick(&[1200u64, 1201, 1472, 16383, 16384, 65527, 65535, VARINT_MAX])
                    } else {
                        1200 + vi_max(r, VARINT_MAX - 1200)
                    }
                }
                6 | 7 => vi_max(r, 1 << 60),
                8 => r.below(21),
                9 => {
                    if r.bool() {
                        *r.pick(&[0u64, 1, 25, 63, 64, 16383])
                    } else {
                        r.below(1 << 14)
                    }
                }
                10 => 2 + vi_max(r, VARINT_MAX - 2),
                _ => vi(r),
            };
            tp.ints[i] = Some(v);
        }
    }
    tp.disable_active_migration = r.bool();
    tp.grease_quic_bit = r.bool();
    if all || r.bool() {
        tp.max_datagram_frame_size = Some(vi(r));
    }
    if all || r.chance(80) {
        tp.initial_src_cid = Some(cid_any(r).to_vec());
    }
    if all || r.bool() {
        let max = tp.int(9) * 1000;
        tp.min_ack_delay = Some(if r.chance(30) { max } else { vi_max(r, max) });
    }
    if sender == Side::Server {
        if all || r.bool() {
            tp.original_dst_cid = Some(cid_any(r).to_vec());
        }
        if all || r.chance(30) {
            tp.retry_src_cid = Some(cid_any(r).to_vec());
        }
        if all || r.bool() {
            tp.stateless_reset_token = Some(r.bytes(16).try_into().unwrap());
        }
        if all || r.chance(40) {
            tp.preferred_address = Some(gen_pa(r));
        }
    }
    tp
}

fn unknown_item(r: &mut Rng) -> Item {
    let id = loop {
        let id = match r.below(3) {
            0 => 27 + 31 * r.below((VARINT_MAX - 27) / 31), // reserved "grease" ids
            1 => 27 + 31 * r.below(100),
            _ => vi(r),
        };
        if !known_id(id) {
            break id;
        }
    };
    let n = r.usize(17);
    Item { id, len: n as u64, value: r.bytes(n) }
}

fn q_read(acc: &mut Acc, reader: Side, bytes: &[u8]) -> Option<Result<TransportParameters, proto::transport_parameters::Error>> {
    match guard(|| TransportParameters::read(reader, &mut &bytes[..])) {
        Ok(x) => Some(x),
        Err(p) => {
            report_panic(acc, &format!("TransportParameters::read({reader:?})"), bytes, &p);
            None
        }
    }
}

fn other(side: Side) -> Side {
    match side {
        Side::Client => Side::Server,
        Side::Server => Side::Client,
    }
}

fn check_valid(acc: &mut Acc, r: &mut Rng) {
    acc.input();
    let sender = if r.bool() { Side::Client } else { Side::Server };
    let reader = other(sender);
    let tp = gen_valid(r, sender);
    let minimal = r.chance(70);
    let mut items = items_of(&tp, r, minimal);
    for _ in 0..r.below(3) {
        items.push(unknown_item(r));
    }
    r.shuffle(&mut items);
    let wide_tl = r.chance(20);
    let bytes = encode_items(&items, if wide_tl { Some(r) } else { None });
    // harness self-check
    match strict_decode(&bytes) {
        Ok((back, _)) if back == tp && tp.semantic_error(reader).is_none() => {}
        other => {
            harness_error(format!("strict_decode does not invert the generator on {tp:?}: {other:?}"));
            return;
        }
    }
    let Some(res) = q_read(acc, reader, &bytes) else { return };
    let p1 = match res {
        Ok(p) => p,
        Err(e) => {
            // longer-than-minimal varint values are legal (RFC 9000 §16) but the library never
            // writes them; quinn's refusal is recorded, not judged
            if nonminimal_only(&bytes, reader) {
                acc.inc("note.tp.valid_nonminimal_varint_rejected");
                observe(NONMINIMAL_REJECTED.to_string(), || format!("read({reader:?}) of {}: {e}", hex(&bytes)));
            } else {
                acc.viol(format!("transport parameters: valid set {tp:?} encoded as {} rejected by read({reader:?}): {e}", hex(&bytes)));
            }
            return;
        }
    };
    let got = tp_fields(&p1);
    let want = expected_fields(&tp);
    if got != want {
        acc.viol(format!("transport parameters: {} read({reader:?}) as {got:?}, the encoded set is {want:?}", hex(&bytes)));
        return;
    }
    acc.inc("tp.read_agree");
    // Debug rendering mentions the generated values
    let dbg = format!("{p1:?}");
    for (i, (_, _, name)) in INTS.iter().enumerate() {
        if !dbg.contains(&format!("{name}: {}", tp.int(i))) {
            acc.viol(format!("transport parameters: Debug rendering lacks '{name}: {}': {dbg}", tp.int(i)));
            return;
        }
    }
    // write -> read
    let mut enc2 = Vec::new();
    if let Err(p) = guard(|| p1.write(&mut enc2)) {
        report_panic(acc, "TransportParameters::write", &bytes, &p);
        return;
    }
    let Some(res2) = q_read(acc, reader, &enc2) else { return };
    match res2 {
        Ok(p2) if p2 == p1 => {}
        other => {
            acc.viol(format!("transport parameters: write -> read of {got:?} gives {other:?} (bytes {})", hex(&enc2)));
            return;
        }
    }
    // quinn's encoding read by the independent decoder: same values (defaults may be omitted)
    match strict_decode(&enc2) {
        Ok((back, unknown)) if with_defaults(&back) == with_defaults(&tp) && unknown.is_empty() => {}
        other => {
            acc.viol(format!("transport parameters: write() of {want:?} produced {}, which the independent decoder reads as {other:?}", hex(&enc2)));
            return;
        }
    }
    acc.inc("tp.write_read_agree");
    let present: u64 = items.iter().fold(0u64, |m, it| m | 1 << (it.id.min(63)));
    acc.cover("tp-valid", &[present, sender as u64, minimal as u64, wide_tl as u64]);
}

/// Production-shaped parameters via the crate's own constructor.
fn check_production(acc: &mut Acc, r: &mut Rng) {
    acc.input();
    let mut tc = TransportConfig::default();
    tc.max_concurrent_bidi_streams(VarInt::from_u64(vi_max(r, 1 << 60)).unwrap());
    tc.max_concurrent_uni_streams(VarInt::from_u64(vi_max(r, 1 << 60)).unwrap());
    tc.receive_window(VarInt::from_u64(vi(r)).unwrap());
    tc.stream_receive_window(VarInt::from_u64(vi(r)).unwrap());
    tc.max_idle_timeout(if r.chance(20) { None } else { Some(IdleTimeout::from(VarInt::from_u64(vi(r)).unwrap())) });
    tc.datagram_receive_buffer_size(if r.chance(30) { None } else { Some(vi_max(r, 1 << 40) as usize) });
    let mut ec = EndpointConfig::new(Arc::new(NullHmacKey(7)));
    let _ = ec.max_udp_payload_size(r.range(1200, 65527) as u16);
    ec.grease_quic_bit(r.bool());
    let cid_len = if r.chance(20) { 0 } else { r.usize(21) };
    let gen = RandomConnectionIdGenerator::new(cid_len);
    let server = r.bool();
    let sc = if server {
        let mut sc = ServerConfig::new(Arc::new(NullServerConfig { shared: NullShared::new(1) }), Arc::new(NullTokenKey(3)));
        sc.migration(r.bool());
        Some(sc)
    } else {
        None
    };
    let so = if server {
        VServerOnly {
            original_dst_cid: if r.bool() { Some(cid_any(r)) } else { None },
            retry_src_cid: if r.chance(30) { Some(cid_any(r)) } else { None },
            stateless_reset_token: if r.bool() { Some(r.bytes(16).try_into().unwrap()) } else { None },
            preferred_address: if r.chance(40) { expected_fields(&Tp { preferred_address: Some(gen_pa(r)), ..Tp::default() }).preferred_address } else { None },
        }
    } else {
        VServerOnly::default()
    };
    let isc = cid_any(r);
    let seed = r.u64();
    let p = match guard(|| tp_new(&tc, &ec, &gen, isc, sc.as_ref(), &so, seed)) {
        Ok(p) => p,
        Err(pn) => {
            report_panic(acc, "TransportParameters::new", &[], &pn);
            return;
        }
    };
    let f = tp_fields(&p);
    let mut bytes = Vec::new();
    if let Err(pn) = guard(|| p.write(&mut bytes)) {
        report_panic(acc, &format!("TransportParameters::write of {f:?}"), &[], &pn);
        return;
    }
    let model = tp_of_fields(&f);
    match strict_decode(&bytes) {
        Ok((back, unknown)) => {
            if with_defaults(&back) != model {
                acc.viol(format!("transport parameters: write() of {f:?} = {}, independent decoder reads {back:?}", hex(&bytes)));
                return;
            }
            if f.has_grease_transport_parameter != (unknown.len() == 1) || unknown.iter().any(|id| id % 31 != 27) {
                acc.viol(format!("transport parameters: reserved parameter ids on the wire {unknown:?} (expected one id = 27 mod 31) in {}", hex(&bytes)));
                return;
            }
        }
        Err(e) => {
            acc.viol(format!("transport parameters: write() of {f:?} = {} is not well-formed: {e}", hex(&bytes)));
            return;
        }
    }
    let reader = if server { Side::Client } else { Side::Server };
    let Some(res) = q_read(acc, reader, &bytes) else { return };
    match res {
        Ok(back) => {
            let mut g = tp_fields(&back);
            g.has_grease_transport_parameter = f.has_grease_transport_parameter;
            g.write_order = f.write_order.clone();
            if g != f {
                acc.viol(format!("transport parameters: production parameters {f:?} read back as {g:?} (bytes {})", hex(&bytes)));
                return;
            }
        }
        Err(e) => {
            // the constructor can be configured into values the peer must reject
            // (max_udp_payload_size etc. are validated by the config setters; anything here is a defect)
            acc.viol(format!("transport parameters: production parameters {f:?} = {} rejected by read({reader:?}): {e}", hex(&bytes)));
            return;
        }
    }
    acc.inc("tp.production_write_read_agree");
    acc.cover("tp-production", &[server as u64, cid_len.min(1) as u64, f.write_order.as_ref().map_or(0, |o| o[0] as u64)]);
}

pub const INVALID_KINDS: u64 = 16;

/// One invalidating edit. Returns (bytes, reader, label).
pub fn gen_invalid(r: &mut Rng, kind: u64) -> (Vec<u8>, Side, &'static str) {
    let mut sender = if r.bool() { Side::Client } else { Side::Server };
    let mut tp = gen_valid(r, sender);
    let mut extra: Vec<Item> = Vec::new();
    let label: &'static str;
    match kind {
        0 => {
            tp.ints[8] = Some(21 + vi_max(r, 1 << 30));
            label = "ack_delay_exponent > 20";
        }
        1 => {
            tp.min_ack_delay = None;
            tp.ints[9] = Some((1 << 14) + vi_max(r, 1 << 40));
            label = "max_ack_delay >= 2^14";
        }
        2 => {
            tp.ints[10] = Some(r.below(2));
            label = "active_connection_id_limit < 2";
        }
        3 => {
            tp.ints[1] = Some(vi_max(r, 1199));
            label = "max_udp_payload_size < 1200";
        }
        4 => {
            let i = 6 + r.usize(2);
            tp.ints[i] = Some((1 << 60) + 1 + vi_max(r, VARINT_MAX - (1 << 60) - 1));
            label = "initial_max_streams > 2^60";
        }
        5 => {
            let mad = tp.int(9);
            tp.min_ack_delay = Some(mad * 1000 + 1 + vi_max(r, 1 << 20));
            label = "min_ack_delay > max_ack_delay * 1000";
        }
        6 => {
            // server-only parameter from a client
            sender = Side::Client;
            tp.original_dst_cid = None;
            tp.retry_src_cid = None;
            tp.stateless_reset_token = None;
            tp.preferred_address = None;
            match r.below(4) {
                0 => tp.original_dst_cid = Some(cid_any(r).to_vec()),
                1 => tp.retry_src_cid = Some(cid_any(r).to_vec()),
                2 => tp.stateless_reset_token = Some([7; 16]),
                _ => tp.preferred_address = Some(gen_pa(r)),
            }
            label = "server-only parameter sent by a client";
        }
        7 => {
            // duplicate of a present parameter (same or different value)
            let items = items_of(&tp, r, true);
            if items.is_empty() {
                tp.grease_quic_bit = true;
            }
            let items = items_of(&tp, r, true);
            let it = r.pick(&items).clone();
            extra.push(it);
            label = "duplicate parameter";
        }
        8 => {
            // integer parameter whose declared length differs from its varint
            let i = r.usize(11);
            let v = tp.int(i);
            tp.ints[i] = None;
            let mut value = var_bytes(v, wire::varint_len(v));
            if r.bool() || value.len() == 1 {
                value.extend_from_slice(&{ let n_ = 1 + r.usize(3); r.bytes(n_) });
            } else {
                value.truncate(value.len() - 1);
            }
            extra.push(Item { id: INTS[i].0, len: value.len() as u64, value });
            label = "integer parameter length does not match its varint";
        }
        9 => {
            tp.stateless_reset_token = None;
            sender = Side::Server;
            let n = *r.pick(&[0usize, 1, 15, 17, 32]);
            extra.push(Item { id: ID_RESET_TOKEN, len: n as u64, value: r.bytes(n) });
            label = "stateless_reset_token length != 16";
        }
        10 => {
            let id = *r.pick(&[ID_ORIGINAL_DST_CID, ID_INITIAL_SRC_CID, ID_RETRY_SRC_CID]);
            sender = Side::Server;
            match id {
                ID_ORIGINAL_DST_CID => tp.original_dst_cid = None,
                ID_INITIAL_SRC_CID => tp.initial_src_cid = None,
                _ => tp.retry_src_cid = None,
            }
            let n = 21 + r.usize(40);
            extra.push(Item { id, len: n as u64, value: r.bytes(n) });
            label = "connection id parameter longer than 20 bytes";
        }
        11 => {
            let id = if r.bool() { ID_DISABLE_MIGRATION } else { ID_GREASE_QUIC_BIT };
            if id == ID_DISABLE_MIGRATION {
                tp.disable_active_migration = false
            } else {
                tp.grease_quic_bit = false
            }
            let n = 1 + r.usize(4);
            extra.push(Item { id, len: n as u64, value: r.bytes(n) });
            label = "flag parameter with a value";
        }
        12 => {
            // max_datagram_frame_size / min_ack_delay whose declared length differs from the varint
            let id = if r.bool() { ID_MAX_DATAGRAM } else { ID_MIN_ACK_DELAY };
            let v = if id == ID_MAX_DATAGRAM {
                tp.max_datagram_frame_size = None;
                vi(r)
            } else {
                tp.min_ack_delay = None;
                vi_max(r, tp.int(9) * 1000)
            };
            let mut value = var_bytes(v, wire::varint_len(v));
            if r.bool() || value.len() == 1 {
                // trailing bytes inside the parameter: a well-formed follow-up parameter, so that a
                // decoder which ignores the declared length keeps parsing cleanly
                value.extend_from_slice(&encode_items(&[unknown_item(r)], None));
            } else {
                value.truncate(value.len() - 1);
            }
            extra.push(Item { id, len: value.len() as u64, value });
            label = "max_datagram_frame_size/min_ack_delay length does not match its varint";
        }
        13 => {
            // preferred_address with wrong inner length
            sender = Side::Server;
            tp.preferred_address = None;
            let mut value = pa_bytes(&gen_pa(r));
            if r.bool() {
                value.extend_from_slice(&encode_items(&[unknown_item(r)], None));
            } else {
                value.truncate(value.len() - 1 - r.usize(20));
            }
            extra.push(Item { id: ID_PREFERRED_ADDRESS, len: value.len() as u64, value });
            label = "preferred_address length does not match its content";
        }
        14 => {
            // declared length runs past the end of the buffer (placed last)
            let n = r.usize(8);
            extra.push(Item { id: unknown_item(r).id, len: n as u64 + 1 + r.below(1 << 20), value: r.bytes(n) });
            label = "parameter length exceeds the buffer";
        }
        _ => {
            // preferred address with a zero-length connection id
            sender = Side::Server;
            let mut pa = gen_pa(r);
            pa.cid.clear();
            tp.preferred_address = Some(pa);
            label = "preferred_address with empty connection id";
        }
    }
    let mut items = items_of(&tp, r, true);
    if kind == 14 {
        r.shuffle(&mut items);
        items.extend(extra);
    } else {
        items.extend(extra);
        r.shuffle(&mut items);
    }
    (encode_items(&items, None), other(sender), label)
}

fn check_invalid(acc: &mut Acc, r: &mut Rng, kind: u64) {
    acc.input();
    let (bytes, reader, label) = gen_invalid(r, kind);
    // harness self-check: the independent decoder + semantic rules reject it too
    let why = match strict_validate(&bytes, reader) {
        Ok(tp) => {
            harness_error(format!("generator for invalid kind {kind} ({label}) produced a set the independent decoder accepts: {tp:?} = {}", hex(&bytes)));
            return;
        }
        Err(e) => e,
    };
    // Whether quinn rejects an invalid set is not part of C10 (the property asks for totality: a
    // value or an error, no panic); acceptance is recorded as an observation, not judged.
    let Some(res) = q_read(acc, reader, &bytes) else { return };
    match res {
        Err(_) => {
            acc.inc("tp.invalid_rejected");
            acc.cover("tp-invalid", &[kind]);
        }
        Ok(p) => {
            acc.inc("note.tp.invalid_set_accepted");
            acc.cover("tp-invalid-accepted", &[kind]);
            observe(format!("transport parameters: invalid set accepted ({})", why.split(": ").next().unwrap_or("")), || format!("{why}: [generator: {label}] read({reader:?}) of {} returned {:?}", hex(&bytes), tp_fields(&p)));
            // an accepted set must still behave like a value: write -> read is the identity
            let mut enc = Vec::new();
            if let Err(pn) = guard(|| p.write(&mut enc)) {
                return report_panic(acc, "TransportParameters::write", &bytes, &pn);
            }
            match q_read(acc, reader, &enc) {
                Some(Ok(p2)) if p2 == p => {}
                Some(other) => acc.viol(format!("transport parameters: accepted input {} re-encodes to {} which reads as {other:?}", hex(&bytes), hex(&enc))),
                None => {}
            }
        }
    }
}

fn random_case(seed: u64, per_case: u64, trace: bool) -> CaseOut {
    let mut acc = Acc::new(trace);
    let mut r = Rng::new(seed);
    for i in 0..per_case {
        match i % 4 {
            0 | 1 => check_valid(&mut acc, &mut r),
            2 => check_production(&mut acc, &mut r),
            _ => check_invalid(&mut acc, &mut r, (i / 4) % INVALID_KINDS),
        }
        if acc.out.viol.len() >= 4 {
            break;
        }
    }
    if seed % 37 == 0 {
        let tp = gen_valid(&mut r, Side::Server);
        let it = items_of(&tp, &mut r, true);
        sample("transport-parameters", serde_json::json!({"set": format!("{tp:?}"), "bytes": hex(&encode_items(&it, None))}));
    }
    acc.finish()
}

pub fn run(ctx: &Ctx, cfg: &Cfg, rep: &mut Report) {
    let per_case = cfg.per_case(256, 2048, 8);
    let g = Group { name: "transport-parameters", cases: cfg.cases(2560, 8192), budget_s: cfg.budget(20.0, 200.0, 0.12), exhaustive: false };
    run_group(ctx, rep, &g, |_, seed, tr| random_case(seed, per_case, tr));
}
