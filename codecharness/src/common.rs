//! Shared plumbing: per-case accumulator, coverage classes, value generators, panic guard.

use std::{
    collections::HashSet,
    panic::{catch_unwind, AssertUnwindSafe},
    sync::{
        atomic::{AtomicU64, Ordering},
        Mutex,
    },
};

use proto::ConnectionId;
use qv::{
    app::Violation,
    check::{take_panic, CaseOut},
    util::{hash64, Rng},
};
use serde_json::Value;

pub const PROP: &str = "C10";

/// Number of individual inputs judged (a runner "case" is a batch of many inputs).
pub static INPUTS: AtomicU64 = AtomicU64::new(0);
/// Distinct coverage classes for which an oracle actually compared a decoded value / outcome.
pub static COVER: Mutex<Option<HashSet<u64>>> = Mutex::new(None);
pub static SAMPLES: Mutex<Vec<Value>> = Mutex::new(Vec::new());
/// Disagreements that are the harness's own fault (its independent codec), never quinn's.
pub static HARNESS_ERRORS: Mutex<Vec<String>> = Mutex::new(Vec::new());

/// Observations that are NOT judged: behaviour the property text does not rule out (a lenient or
/// over-strict decoder on inputs the library never produces). key -> (count, one example).
pub static OBSERVATIONS: Mutex<std::collections::BTreeMap<String, (u64, String)>> = Mutex::new(std::collections::BTreeMap::new());

pub fn observe(key: String, example: impl FnOnce() -> String) {
    let mut g = OBSERVATIONS.lock().unwrap();
    match g.get_mut(&key) {
        Some(e) => e.0 += 1,
        None => {
            if g.len() < 64 {
                g.insert(key, (1, example()));
            }
        }
    }
}

pub fn harness_error(msg: String) {
    let mut g = HARNESS_ERRORS.lock().unwrap();
    if g.len() < 50 {
        g.push(msg);
    }
}

pub fn sample(component: &str, v: Value) {
    let mut g = SAMPLES.lock().unwrap();
    if g.iter().filter(|s| s["component"] == component).count() < 2 {
        g.push(serde_json::json!({"component": component, "case": v}));
    }
}

pub struct Acc {
    pub out: CaseOut,
    cov: HashSet<u64>,
    inputs: u64,
    pub trace: bool,
    sites: HashSet<(&'static str, u32, u64)>,
}

/// How often each reporting site has emitted a violation in this process. The runner keeps at
/// most 200 violations per run; a frequently firing (e.g. already known) defect must not crowd
/// out a new one, so every site reports at most `SITE_BUDGET` instances and counts the rest.
pub static SITE_COUNTS: Mutex<Option<std::collections::HashMap<(&'static str, u32, u64), u64>>> = Mutex::new(None);
const SITE_BUDGET: u64 = 3;

impl Acc {
    pub fn new(trace: bool) -> Self {
        Self { out: CaseOut::default(), cov: HashSet::new(), inputs: 0, trace, sites: HashSet::new() }
    }
    /// Report a violated oracle. One report per call site per case, `SITE_BUDGET` per site per run.
    #[track_caller]
    pub fn viol(&mut self, msg: String) {
        self.viol_sub(0, msg)
    }
    /// Like `viol`, with an extra discriminator so that one site can report distinct defects.
    #[track_caller]
    pub fn viol_sub(&mut self, sub: u64, msg: String) {
        let loc = std::panic::Location::caller();
        let key = (loc.file(), loc.line(), sub);
        self.out.cnt.inc("oracle_failures_total");
        if !self.sites.insert(key) {
            return;
        }
        let mut g = SITE_COUNTS.lock().unwrap();
        let n = g.get_or_insert_with(Default::default).entry(key).or_insert(0);
        *n += 1;
        if *n <= SITE_BUDGET || self.trace {
            self.out.viol.push(Violation { prop: PROP, msg });
        }
    }
    pub fn inc(&mut self, k: &'static str) {
        self.out.cnt.inc(k)
    }
    pub fn add(&mut self, k: &'static str, n: u64) {
        self.out.cnt.add(k, n)
    }
    /// one more individual input judged
    pub fn input(&mut self) {
        self.inputs += 1;
    }
    pub fn inputs(&mut self, n: u64) {
        self.inputs += n;
    }
    /// record the coverage class of an input on which an oracle compared something
    pub fn cover(&mut self, component: &str, class: &[u64]) {
        let mut v = Vec::with_capacity(class.len() * 8);
        for c in class {
            v.extend_from_slice(&c.to_le_bytes());
        }
        self.cov.insert(hash64(0xC10, &[component.as_bytes(), &v]));
    }
    pub fn tr(&mut self, f: impl FnOnce() -> String) {
        if self.trace {
            self.out.trace.get_or_insert_with(Vec::new).push(f());
        }
    }
    pub fn finish(mut self) -> CaseOut {
        INPUTS.fetch_add(self.inputs, Ordering::Relaxed);
        self.out.nontrivial = !self.cov.is_empty();
        // the runner's own per-case fingerprint: the set of classes this batch touched
        let mut all: Vec<u64> = self.cov.iter().copied().collect();
        all.sort_unstable();
        let bytes: Vec<u8> = all.iter().flat_map(|x| x.to_le_bytes()).collect();
        self.out.fp = hash64(0xFB, &[&bytes]);
        let mut g = COVER.lock().unwrap();
        g.get_or_insert_with(HashSet::new).extend(self.cov.iter().copied());
        self.out
    }
}

/// Run a call into the code under test; a panic becomes `Err(location: message)`.
pub fn guard<T>(f: impl FnOnce() -> T) -> Result<T, String> {
    match catch_unwind(AssertUnwindSafe(f)) {
        Ok(v) => Ok(v),
        Err(_) => {
            let (loc, msg) = take_panic().unwrap_or_default();
            Err(format!("{loc}: {msg}"))
        }
    }
}

pub fn panic_is_sut(desc: &str) -> bool {
    // Every guarded call is a call into quinn; a panic raised below it (in quinn itself or in a
    // dependency it drives, e.g. `bytes`' advance/copy_to_slice assertions) belongs to the code
    // under test unless it originates in harness-owned callbacks (null crypto keys etc.).
    let loc = desc.split(": ").next().unwrap_or("");
    !loc.contains("/verif/") && !loc.contains("codecharness")
}

/// Report a panic caught by `guard`: inside quinn => violation, inside the harness => harness error.
#[track_caller]
pub fn report_panic(acc: &mut Acc, what: &str, input: &[u8], desc: &str) {
    if panic_is_sut(desc) {
        let site = hash64(1, &[desc.split(": ").next().unwrap_or("").as_bytes()]);
        let (loc, msg) = desc.split_once(": ").unwrap_or((desc, ""));
        acc.viol_sub(site, format!("panic in code under test: {what}: '{msg}' at {loc}; input {} ({} bytes)", hex(input), input.len()));
    } else {
        harness_error(format!("harness panic during {what} on input {}: {desc}", hex(input)));
    }
}

pub fn hex(b: &[u8]) -> String {
    qv::util::hex(b)
}

pub const VARINT_MAX: u64 = (1 << 62) - 1;
/// The boundary values every varint field is exercised at.
pub const EDGE: [u64; 9] = [0, 1, 63, 64, 16383, 16384, (1 << 30) - 1, 1 << 30, VARINT_MAX];

/// Boundary-biased value in [0, 2^62)
pub fn vi(r: &mut Rng) -> u64 {
    match r.below(10) {
        0..=3 => *r.pick(&EDGE),
        4 => {
            let e = *r.pick(&EDGE);
            let d = r.below(4);
            if r.bool() { e.saturating_sub(d) } else { (e + d).min(VARINT_MAX) }
        }
        5 => r.below(64),
        6 => r.range(64, 16383),
        7 => r.range(16384, (1 << 30) - 1),
        8 => r.range(1 << 30, VARINT_MAX),
        _ => {
            // random bit length
            let bits = r.range(1, 62);
            r.u64() & ((1u64 << bits) - 1)
        }
    }
}

/// Boundary-biased value in [0, max]
pub fn vi_max(r: &mut Rng, max: u64) -> u64 {
    let v = vi(r);
    if v <= max {
        v
    } else if r.bool() {
        max - r.below(3.min(max + 1))
    } else {
        r.range(0, max)
    }
}

pub fn size_class(v: u64) -> u64 {
    if v < 64 {
        0
    } else if v < 16384 {
        1
    } else if v < 1 << 30 {
        2
    } else {
        3
    }
}

pub fn cid(r: &mut Rng, len: usize) -> ConnectionId {
    ConnectionId::new(&r.bytes(len))
}

pub fn cid_any(r: &mut Rng) -> ConnectionId {
    let len = match r.below(6) {
        0 => 0,
        1 => 20,
        2 => 8,
        _ => r.usize(21),
    };
    cid(r, len)
}

/// Length distribution for random byte strings: heavy on short.
pub fn rand_len(r: &mut Rng, max: usize) -> usize {
    let m = match r.below(10) {
        0..=4 => 16,
        5..=7 => 64,
        _ => max,
    };
    r.usize(m.min(max) + 1)
}

const SPICE: [u8; 24] = [
    0x00, 0x01, 0x02, 0x03, 0x06, 0x08, 0x0f, 0x18, 0x1c, 0x1d, 0x30, 0x31, 0x3f, 0x40, 0x41, 0x7f, 0x80, 0xaf, 0xbf, 0xc0,
    0xc3, 0xe0, 0xfe, 0xff,
];

/// Random bytes; half of the time drawn from a small alphabet of structurally interesting bytes.
pub fn rand_bytes(r: &mut Rng, max: usize) -> Vec<u8> {
    let n = rand_len(r, max);
    if r.bool() {
        r.bytes(n)
    } else {
        (0..n).map(|_| if r.chance(70) { *r.pick(&SPICE) } else { r.u64() as u8 }).collect()
    }
}

/// 1..=3 byte-level mutations (overwrite, bit flip, insert, delete, extend, truncate)
pub fn mutate(r: &mut Rng, src: &[u8]) -> Vec<u8> {
    let mut v = src.to_vec();
    for _ in 0..r.range(1, 3) {
        match r.below(7) {
            0 | 1 if !v.is_empty() => {
                let i = r.usize(v.len());
                v[i] = if r.bool() { *r.pick(&SPICE) } else { r.u64() as u8 };
            }
            2 if !v.is_empty() => {
                let i = r.usize(v.len());
                v[i] ^= 1 << r.below(8);
            }
            3 => {
                let i = r.usize(v.len() + 1);
                v.insert(i, if r.bool() { *r.pick(&SPICE) } else { r.u64() as u8 });
            }
            4 if !v.is_empty() => {
                let i = r.usize(v.len());
                v.remove(i);
            }
            5 => {
                let n = r.range(1, 9) as usize;
                let extra = r.bytes(n);
                v.extend_from_slice(&extra);
            }
            _ if !v.is_empty() => {
                let n = r.usize(v.len());
                v.truncate(n);
            }
            _ => {}
        }
    }
    v
}
