//! Component 3: all frame types against the crate-private `frame::Iter` and the production frame
//! encoders (hook H3: `verif::decode_frames`, `verif::reencode_frames`).
//!
//! Flow per generated frame sequence `F` (values are `wire::Frame`):
//!   bytes  = harness-encode(F)              (own encoder here, cross-checked with wire::Frame::encode)
//!   (a) quinn decode(bytes) rendering            == render(F)
//!   (b) quinn decode(bytes with varints widened) == render(F)      (non-minimal field encodings)
//!   (c) wire::decode_frames(quinn re-encode(bytes)) == normalise(F)
//!   (d) quinn decode(quinn re-encode(bytes)) rendering == render(F)
//! Sequences containing a frame quinn must reject (NEW_CONNECTION_ID with retire_prior_to >
//! sequence or cid length 0 / > 20, unknown frame type, ACK with impossible ranges, truncation
//! inside a length-delimited frame, empty payload) must yield an error, never a value.
//!
//! Normalisations accepted on re-encode (quinn's encoders canonicalise these, the value is unchanged):
//!   * STREAM: the OFF bit is written iff offset != 0 (an explicit zero offset is dropped);
//!   * STREAM / DATAGRAM: the LEN bit is chosen by the encoder's `length` argument, not preserved;
//!   * every varint is re-written in minimal form;
//!   * CONNECTION_CLOSE frame type 0 <-> `None`;
//!   * consecutive PADDING bytes are one run.

use proto::verif::{decode_frames, reencode_frames};
use qv::{
    check::{run_group, CaseOut, Ctx, Group, Report},
    util::Rng,
    wire::{self, Frame},
};

use crate::{common::*, Cfg, Lane};

// ---------------------------------------------------------------------------------------------
// Independent encoder with a varint-width policy
// ---------------------------------------------------------------------------------------------

pub struct Enc<'a> {
    pub out: Vec<u8>,
    pub wide: Option<&'a mut Rng>,
}

impl Enc<'_> {
    fn pv(&mut self, v: u64) {
        match &mut self.wide {
            None => wire::put_var(&mut self.out, v),
            Some(r) => {
                let min = wire::varint_len(v);
                let opts: Vec<usize> = [1usize, 2, 4, 8].into_iter().filter(|l| *l >= min).collect();
                let len = *r.pick(&opts);
                wire::put_var_len(&mut self.out, v, len);
            }
        }
    }
    fn raw(&mut self, b: &[u8]) {
        self.out.extend_from_slice(b)
    }
    pub fn frame(&mut self, f: &Frame) {
        use Frame::*;
        match f {
            Padding(n) => self.out.resize(self.out.len() + n, 0),
            Ping => self.out.push(1),
            Ack { largest, delay, ranges, ecn } => {
                self.out.push(if ecn.is_some() { 3 } else { 2 });
                self.pv(*largest);
                self.pv(*delay);
                self.pv(ranges.len() as u64 - 1);
                self.pv(ranges[0].1 - ranges[0].0);
                for w in ranges.windows(2) {
                    self.pv(w[0].0 - w[1].1 - 2);
                    self.pv(w[1].1 - w[1].0);
                }
                if let Some((a, b, c)) = ecn {
                    self.pv(*a);
                    self.pv(*b);
                    self.pv(*c);
                }
            }
            ResetStream { id, code, final_size } => {
                self.out.push(4);
                self.pv(*id);
                self.pv(*code);
                self.pv(*final_size);
            }
            StopSending { id, code } => {
                self.out.push(5);
                self.pv(*id);
                self.pv(*code);
            }
            Crypto { off, data } => {
                self.out.push(6);
                self.pv(*off);
                self.pv(data.len() as u64);
                self.raw(data);
            }
            NewToken { token } => {
                self.out.push(7);
                self.pv(token.len() as u64);
                self.raw(token);
            }
            Stream { id, off, fin, data, explicit_len, explicit_off } => {
                let has_off = *explicit_off || *off != 0;
                self.out.push(8 | *fin as u8 | (*explicit_len as u8) << 1 | (has_off as u8) << 2);
                self.pv(*id);
                if has_off {
                    self.pv(*off);
                }
                if *explicit_len {
                    self.pv(data.len() as u64);
                }
                self.raw(data);
            }
            MaxData(v) => {
                self.out.push(0x10);
                self.pv(*v);
            }
            MaxStreamData { id, max } => {
                self.out.push(0x11);
                self.pv(*id);
                self.pv(*max);
            }
            MaxStreams { bidi, max } => {
                self.out.push(if *bidi { 0x12 } else { 0x13 });
                self.pv(*max);
            }
            DataBlocked(v) => {
                self.out.push(0x14);
                self.pv(*v);
            }
            StreamDataBlocked { id, limit } => {
                self.out.push(0x15);
                self.pv(*id);
                self.pv(*limit);
            }
            StreamsBlocked { bidi, limit } => {
                self.out.push(if *bidi { 0x16 } else { 0x17 });
                self.pv(*limit);
            }
            NewConnectionId { seq, retire_prior_to, cid, token } => {
                self.out.push(0x18);
                self.pv(*seq);
                self.pv(*retire_prior_to);
                self.out.push(cid.len() as u8);
                self.raw(cid);
                self.raw(token);
            }
            RetireConnectionId { seq } => {
                self.out.push(0x19);
                self.pv(*seq);
            }
            PathChallenge(v) => {
                self.out.push(0x1a);
                self.raw(&v.to_be_bytes());
            }
            PathResponse(v) => {
                self.out.push(0x1b);
                self.raw(&v.to_be_bytes());
            }
            ConnectionClose { code, frame_type, reason } => {
                self.out.push(0x1c);
                self.pv(*code);
                self.pv(*frame_type);
                self.pv(reason.len() as u64);
                self.raw(reason);
            }
            ApplicationClose { code, reason } => {
                self.out.push(0x1d);
                self.pv(*code);
                self.pv(reason.len() as u64);
                self.raw(reason);
            }
            HandshakeDone => self.out.push(0x1e),
            ImmediateAck => self.out.push(0x1f),
            Datagram { data, explicit_len } => {
                self.out.push(0x30 | *explicit_len as u8);
                if *explicit_len {
                    self.pv(data.len() as u64);
                }
                self.raw(data);
            }
            AckFrequency { seq, threshold, max_ack_delay, reordering } => {
                self.raw(&[0x40, 0xaf]);
                self.pv(*seq);
                self.pv(*threshold);
                self.pv(*max_ack_delay);
                self.pv(*reordering);
            }
        }
    }
}

pub fn encode_all(frames: &[Frame], wide: Option<&mut Rng>) -> Vec<u8> {
    let mut e = Enc { out: Vec::new(), wide };
    for f in frames {
        e.frame(f);
    }
    e.out
}

// ---------------------------------------------------------------------------------------------
// Canonical rendering (must match quinn-proto/src/verif.rs::render_frame)
// ---------------------------------------------------------------------------------------------

pub fn render(f: &Frame, out: &mut Vec<String>) {
    use Frame::*;
    let dir = |b: &bool| if *b { "bi" } else { "uni" };
    let s = match f {
        Padding(n) => {
            for _ in 0..*n {
                out.push("PADDING".into());
            }
            return;
        }
        Ping => "PING".into(),
        Ack { largest, delay, ranges, ecn } => {
            let rs: Vec<String> = ranges.iter().map(|(lo, hi)| format!("{lo}..={hi}")).collect();
            let e = match ecn {
                None => "none".to_string(),
                Some((a, b, c)) => format!("{a},{b},{c}"),
            };
            format!("ACK largest={largest} delay={delay} ranges=[{}] ecn={e}", rs.join(","))
        }
        ResetStream { id, code, final_size } => format!("RESET_STREAM id={id} code={code} final={final_size}"),
        StopSending { id, code } => format!("STOP_SENDING id={id} code={code}"),
        Crypto { off, data } => format!("CRYPTO off={off} data={}", hex(data)),
        NewToken { token } => format!("NEW_TOKEN token={}", hex(token)),
        Stream { id, off, fin, data, .. } => format!("STREAM id={id} off={off} fin={fin} data={}", hex(data)),
        MaxData(v) => format!("MAX_DATA max={v}"),
        MaxStreamData { id, max } => format!("MAX_STREAM_DATA id={id} max={max}"),
        MaxStreams { bidi, max } => format!("MAX_STREAMS dir={} max={max}", dir(bidi)),
        DataBlocked(v) => format!("DATA_BLOCKED limit={v}"),
        StreamDataBlocked { id, limit } => format!("STREAM_DATA_BLOCKED id={id} limit={limit}"),
        StreamsBlocked { bidi, limit } => format!("STREAMS_BLOCKED dir={} limit={limit}", dir(bidi)),
        NewConnectionId { seq, retire_prior_to, cid, token } => {
            format!("NEW_CONNECTION_ID seq={seq} rpt={retire_prior_to} cid={} token={}", hex(cid), hex(token))
        }
        RetireConnectionId { seq } => format!("RETIRE_CONNECTION_ID seq={seq}"),
        PathChallenge(v) => format!("PATH_CHALLENGE {v:016x}"),
        PathResponse(v) => format!("PATH_RESPONSE {v:016x}"),
        ConnectionClose { code, frame_type, reason } => format!("CONNECTION_CLOSE code={code} ft={frame_type} reason={}", hex(reason)),
        ApplicationClose { code, reason } => format!("APPLICATION_CLOSE code={code} reason={}", hex(reason)),
        HandshakeDone => "HANDSHAKE_DONE".into(),
        Datagram { data, .. } => format!("DATAGRAM data={}", hex(data)),
        AckFrequency { seq, threshold, max_ack_delay, reordering } => {
            format!("ACK_FREQUENCY seq={seq} thr={threshold} mad={max_ack_delay} reord={reordering}")
        }
        ImmediateAck => "IMMEDIATE_ACK".into(),
    };
    out.push(s);
}

pub fn render_all(frames: &[Frame]) -> Vec<String> {
    let mut v = Vec::new();
    for f in frames {
        render(f, &mut v);
    }
    v
}

/// What the harness decoder must see after quinn re-encoded the sequence.
fn normalise(frames: &[Frame], length_on_last: bool) -> Vec<Frame> {
    let mut out: Vec<Frame> = Vec::new();
    // quinn's Iter yields one Padding per byte, so the frame count (and with it "last") is in bytes
    let n = frames.len();
    for (i, f) in frames.iter().enumerate() {
        let last = i + 1 == n;
        let length = !last || length_on_last;
        match f {
            Frame::Stream { id, off, fin, data, .. } => {
                out.push(Frame::Stream { id: *id, off: *off, fin: *fin, data: data.clone(), explicit_len: length, explicit_off: *off != 0 })
            }
            Frame::Datagram { data, .. } => out.push(Frame::Datagram { data: data.clone(), explicit_len: length }),
            Frame::Padding(k) => match out.last_mut() {
                Some(Frame::Padding(p)) => *p += k,
                _ => out.push(Frame::Padding(*k)),
            },
            other => out.push(other.clone()),
        }
    }
    out
}

// ---------------------------------------------------------------------------------------------
// Generators
// ---------------------------------------------------------------------------------------------

pub const KINDS: u64 = 24;

fn data_len(r: &mut Rng) -> usize {
    if cfg!(miri) {
        // the interpreter spends its time formatting payload bytes; the structure is what matters
        return *r.pick(&[0usize, 1, 7, 63, 64, 70]);
    }
    match r.below(8) {
        0 => 0,
        1 => 1,
        2 => 63,
        3 => 64,
        4 => r.range(1100, 1300) as usize,
        _ => r.usize(100),
    }
}

pub fn gen_ack(r: &mut Rng, nranges: usize, ecn: bool) -> Frame {
    // choose sizes first, then a largest that fits them (or exactly fits: lowest range ends at 0)
    let mut spans: Vec<(u64, u64)> = Vec::with_capacity(nranges); // (gap_enc, len_enc)
    let small = |r: &mut Rng| match r.below(6) {
        0 => 0,
        1 => 1,
        2 => 63,
        3 => 64,
        4 => r.below(20_000),
        _ => r.below(8),
    };
    let first = small(r);
    let mut need = first;
    for _ in 1..nranges {
        let g = small(r);
        let l = small(r);
        need += g + 2 + l;
        spans.push((g, l));
    }
    let largest = match r.below(4) {
        0 => need, // lowest acknowledged packet is exactly 0
        1 => VARINT_MAX,
        2 => need + r.below(1 << 20),
        _ => need.max(vi(r)),
    };
    let mut ranges = vec![(largest - first, largest)];
    let mut lo = largest - first;
    for (g, l) in spans {
        let hi = lo - g - 2;
        ranges.push((hi - l, hi));
        lo = hi - l;
    }
    Frame::Ack { largest, delay: vi(r), ranges, ecn: if ecn { Some((vi(r), vi(r), vi(r))) } else { None } }
}

pub fn gen_frame(r: &mut Rng, kind: u64, last: bool) -> Frame {
    let tok16 = |r: &mut Rng| -> [u8; 16] { r.bytes(16).try_into().unwrap() };
    match kind {
        0 => Frame::Padding(1 + r.usize(5)),
        1 => Frame::Ping,
        2 => {
            let n = match r.below(4) {
                0 => 1,
                1 => 64,
                _ => 1 + r.usize(64),
            };
            let ecn = r.bool();
            gen_ack(r, n, ecn)
        }
        3 => Frame::ResetStream { id: vi(r), code: vi(r), final_size: vi(r) },
        4 => Frame::StopSending { id: vi(r), code: vi(r) },
        5 => Frame::Crypto { off: vi(r), data: { let n_ = data_len(r); r.bytes(n_) } },
        6 => Frame::NewToken { token: { let n_ = data_len(r); r.bytes(n_) } },
        7 => {
            let explicit_len = !last || r.bool();
            let off = if r.chance(30) { 0 } else { vi(r) };
            Frame::Stream { id: vi(r), off, fin: r.bool(), data: { let n_ = data_len(r); r.bytes(n_) }, explicit_len, explicit_off: off != 0 || r.bool() }
        }
        8 => Frame::MaxData(vi(r)),
        9 => Frame::MaxStreamData { id: vi(r), max: vi(r) },
        10 => Frame::MaxStreams { bidi: r.bool(), max: vi(r) },
        11 => Frame::DataBlocked(vi(r)),
        12 => Frame::StreamDataBlocked { id: vi(r), limit: vi(r) },
        13 => Frame::StreamsBlocked { bidi: r.bool(), limit: vi(r) },
        14 => {
            let seq = vi(r);
            let rpt = if r.chance(30) { seq } else { vi_max(r, seq) };
            let len = 1 + r.usize(20);
            Frame::NewConnectionId { seq, retire_prior_to: rpt, cid: r.bytes(len), token: tok16(r) }
        }
        15 => Frame::RetireConnectionId { seq: vi(r) },
        16 => Frame::PathChallenge(r.u64()),
        17 => Frame::PathResponse(r.u64()),
        18 => Frame::ConnectionClose { code: vi(r), frame_type: if r.chance(30) { 0 } else { vi(r) }, reason: { let n_ = data_len(r); r.bytes(n_) } },
        19 => Frame::ApplicationClose { code: vi(r), reason: { let n_ = data_len(r); r.bytes(n_) } },
        20 => Frame::HandshakeDone,
        21 => Frame::Datagram { data: { let n_ = data_len(r); r.bytes(n_) }, explicit_len: !last || r.bool() },
        22 => Frame::AckFrequency { seq: vi(r), threshold: vi(r), max_ack_delay: vi(r), reordering: vi(r) },
        _ => Frame::ImmediateAck,
    }
}

pub fn gen_sequence(r: &mut Rng) -> Vec<Frame> {
    let n = 1 + r.usize(5);
    let mut v: Vec<Frame> = Vec::with_capacity(n);
    for i in 0..n {
        let mut k = r.below(KINDS);
        if k == 0 && matches!(v.last(), Some(Frame::Padding(_))) {
            k = 1;
        }
        v.push(gen_frame(r, k, i + 1 == n));
    }
    v
}

fn class_of(frames: &[Frame]) -> Vec<u64> {
    // coverage class: multiset of (frame kind, size class of its largest field, flags)
    let mut c: Vec<u64> = frames
        .iter()
        .map(|f| {
            let (k, m, fl): (u64, u64, u64) = match f {
                Frame::Padding(n) => (0, *n as u64, 0),
                Frame::Ping => (1, 0, 0),
                Frame::Ack { largest, ranges, ecn, .. } => (2, *largest, (ranges.len() as u64).min(65) << 1 | ecn.is_some() as u64),
                Frame::ResetStream { id, code, final_size } => (3, *id.max(code).max(final_size), 0),
                Frame::StopSending { id, code } => (4, *id.max(code), 0),
                Frame::Crypto { off, data } => (5, *off, size_class(data.len() as u64)),
                Frame::NewToken { token } => (6, token.len() as u64, 0),
                Frame::Stream { id, off, fin, data, explicit_len, explicit_off } => {
                    (7, *id.max(off), (*fin as u64) | (*explicit_len as u64) << 1 | (*explicit_off as u64) << 2 | size_class(data.len() as u64) << 3)
                }
                Frame::MaxData(v) => (8, *v, 0),
                Frame::MaxStreamData { id, max } => (9, *id.max(max), 0),
                Frame::MaxStreams { bidi, max } => (10, *max, *bidi as u64),
                Frame::DataBlocked(v) => (11, *v, 0),
                Frame::StreamDataBlocked { id, limit } => (12, *id.max(limit), 0),
                Frame::StreamsBlocked { bidi, limit } => (13, *limit, *bidi as u64),
                Frame::NewConnectionId { seq, cid, .. } => (14, *seq, cid.len() as u64),
                Frame::RetireConnectionId { seq } => (15, *seq, 0),
                Frame::PathChallenge(_) => (16, 0, 0),
                Frame::PathResponse(_) => (17, 0, 0),
                Frame::ConnectionClose { code, frame_type, reason } => (18, *code.max(frame_type), size_class(reason.len() as u64)),
                Frame::ApplicationClose { code, reason } => (19, *code, size_class(reason.len() as u64)),
                Frame::HandshakeDone => (20, 0, 0),
                Frame::Datagram { data, explicit_len } => (21, data.len() as u64, *explicit_len as u64),
                Frame::AckFrequency { seq, threshold, max_ack_delay, reordering } => (22, *seq.max(threshold).max(max_ack_delay).max(reordering), 0),
                Frame::ImmediateAck => (23, 0, 0),
            };
            k << 32 | size_class(m) << 24 | (fl & 0xff_ffff)
        })
        .collect();
    c.sort_unstable();
    c.dedup();
    c
}

// ---------------------------------------------------------------------------------------------
// Oracles
// ---------------------------------------------------------------------------------------------

fn q_decode(acc: &mut Acc, what: &str, bytes: &[u8]) -> Option<Result<Vec<String>, String>> {
    match guard(|| decode_frames(bytes)) {
        Ok(r) => Some(r),
        Err(p) => {
            report_panic(acc, what, bytes, &p);
            None
        }
    }
}

/// Checks (a)-(d) on one valid sequence. Returns true if everything agreed.
pub fn check_valid(acc: &mut Acc, frames: &[Frame], r: &mut Rng) -> bool {
    acc.input();
    let bytes = encode_all(frames, None);
    // harness self-check: the shared wire codec encodes and decodes this sequence identically
    let mut w = Vec::new();
    for f in frames {
        f.encode(&mut w);
    }
    if w != bytes {
        harness_error(format!("wire::Frame::encode disagrees with the check's own encoder on {frames:?}: {} vs {}", hex(&w), hex(&bytes)));
        return false;
    }
    match wire::decode_frames(&bytes) {
        Ok(back) if back == normalise_padding(frames) => {}
        other => {
            harness_error(format!("wire::decode_frames does not invert wire::Frame::encode on {frames:?}: {other:?}"));
            return false;
        }
    }
    let want = render_all(frames);
    // (a)
    let Some(got) = q_decode(acc, "frame::Iter", &bytes) else { return false };
    if got.as_ref() != Ok(&want) {
        acc.viol(format!("frames: harness-encoded {} decodes in quinn to {got:?}, the encoded value is {want:?}", hex(&bytes)));
        return false;
    }
    acc.inc("frames.decode_agree");
    // (b)
    let wide = encode_all(frames, Some(r));
    if wide != bytes {
        let Some(got) = q_decode(acc, "frame::Iter", &wide) else { return false };
        if got.as_ref() != Ok(&want) {
            acc.viol(format!("frames: non-minimal varint encoding {} decodes in quinn to {got:?}, the encoded value is {want:?}", hex(&wide)));
            return false;
        }
        acc.inc("frames.decode_nonminimal_agree");
    }
    // (c) + (d)
    let length_on_last = r.bool();
    let re = match guard(|| reencode_frames(&bytes, length_on_last, 1 << 20)) {
        Ok(Ok(re)) => re,
        Ok(Err(e)) => {
            acc.viol(format!("frames: re-encoding the decodable payload {} failed: {e}", hex(&bytes)));
            return false;
        }
        Err(p) => {
            report_panic(acc, "production frame encoders", &bytes, &p);
            return false;
        }
    };
    let norm = normalise(frames, length_on_last);
    match wire::decode_frames(&re) {
        Ok(back) if back == norm => {}
        other => {
            acc.viol(format!(
                "frames: quinn re-encoded {} as {}, which the independent decoder reads as {other:?}; the value is {norm:?}",
                hex(&bytes),
                hex(&re)
            ));
            return false;
        }
    }
    let Some(got) = q_decode(acc, "frame::Iter", &re) else { return false };
    if got.as_ref() != Ok(&want) {
        acc.viol(format!("frames: quinn's own re-encoding {} of {want:?} decodes in quinn to {got:?}", hex(&re)));
        return false;
    }
    // minimality: quinn's encoding is never longer than the minimal independent encoding of the
    // normalised sequence
    let min = encode_all(&norm, None);
    if re != min {
        acc.viol(format!("frames: quinn re-encoded {want:?} as {}, the canonical minimal encoding is {}", hex(&re), hex(&min)));
        return false;
    }
    acc.inc("frames.reencode_agree");
    let class = class_of(frames);
    acc.cover("frames", &class);
    true
}

fn normalise_padding(frames: &[Frame]) -> Vec<Frame> {
    let mut out: Vec<Frame> = Vec::new();
    for f in frames {
        match (out.last_mut(), f) {
            (Some(Frame::Padding(p)), Frame::Padding(k)) => *p += k,
            _ => out.push(f.clone()),
        }
    }
    out
}

/// A payload that quinn must reject. `prefix` is a valid sequence placed in front.
fn check_invalid(acc: &mut Acc, r: &mut Rng) {
    acc.input();
    let mut prefix = gen_sequence(r);
    // prefix frames must all be length-delimited
    for f in prefix.iter_mut() {
        match f {
            Frame::Stream { explicit_len, .. } | Frame::Datagram { explicit_len, .. } => *explicit_len = true,
            _ => {}
        }
    }
    if r.chance(30) {
        prefix.clear();
    }
    let mut bytes = encode_all(&prefix, None);
    let tok = r.bytes(16);
    let kind = r.below(8);
    let label = match kind {
        0 => {
            // retire_prior_to > sequence
            let seq = vi_max(r, VARINT_MAX - 1);
            let rpt = seq + 1 + r.below((VARINT_MAX - seq).min(1 << 20));
            let mut e = Enc { out: std::mem::take(&mut bytes), wide: None };
            let len = 1 + r.usize(20);
            e.frame(&Frame::NewConnectionId { seq, retire_prior_to: rpt, cid: r.bytes(len), token: tok.try_into().unwrap() });
            bytes = e.out;
            "NEW_CONNECTION_ID retire_prior_to > sequence"
        }
        1 => {
            let len = if r.bool() { 0 } else { r.range(21, 255) as usize };
            bytes.push(0x18);
            wire::put_var(&mut bytes, 5);
            wire::put_var(&mut bytes, 1);
            bytes.push(len as u8);
            bytes.extend_from_slice(&r.bytes(len));
            bytes.extend_from_slice(&tok);
            "NEW_CONNECTION_ID cid length 0 or > 20"
        }
        2 => {
            let ty = loop {
                let t = match r.below(3) {
                    0 => r.range(0x20, 0x2f),
                    1 => r.range(0x32, 0x3f),
                    _ => vi(r),
                };
                if !(t <= 0x1f || t == 0x30 || t == 0x31 || t == 0xaf) {
                    break t;
                }
            };
            wire::put_var(&mut bytes, ty);
            bytes.extend_from_slice(&{ let n_ = r.usize(20); r.bytes(n_) });
            "unknown frame type"
        }
        3 => {
            // ACK whose first range reaches below zero
            let largest = vi_max(r, 1 << 40);
            bytes.push(2);
            wire::put_var(&mut bytes, largest);
            wire::put_var(&mut bytes, 0);
            wire::put_var(&mut bytes, 0);
            wire::put_var(&mut bytes, largest + 1 + r.below(5));
            "ACK first range larger than largest"
        }
        4 => {
            // ACK whose second range underflows
            let largest = r.below(1000);
            let first = r.below(largest + 1);
            let rem = largest - first;
            bytes.push(3);
            wire::put_var(&mut bytes, largest);
            wire::put_var(&mut bytes, 0);
            wire::put_var(&mut bytes, 1);
            wire::put_var(&mut bytes, first);
            // a valid second range needs gap + 2 + len <= rem; violate it at the length or at the gap
            let (gap, len) = if rem >= 2 && r.bool() { (0, rem - 1) } else { (rem, 0) };
            wire::put_var(&mut bytes, gap);
            wire::put_var(&mut bytes, len);
            wire::put_var(&mut bytes, 0);
            wire::put_var(&mut bytes, 0);
            wire::put_var(&mut bytes, 0);
            "ACK additional range below zero"
        }
        5 => {
            bytes.clear();
            "empty payload"
        }
        _ => {
            // truncation strictly inside a length-delimited final frame
            let k = loop {
                let k = r.below(KINDS);
                if !matches!(k, 0 | 1 | 20 | 23) {
                    break k;
                }
            };
            let mut f = gen_frame(r, k, false);
            match &mut f {
                Frame::Stream { explicit_len, .. } | Frame::Datagram { explicit_len, .. } => *explicit_len = true,
                _ => {}
            }
            let start = bytes.len();
            let mut e = Enc { out: std::mem::take(&mut bytes), wide: None };
            e.frame(&f);
            bytes = e.out;
            let cut = start + 1 + r.usize(bytes.len() - start - 1);
            bytes.truncate(cut);
            "truncated inside a length-delimited frame"
        }
    };
    let Some(got) = q_decode(acc, "frame::Iter", &bytes) else { return };
    match got {
        Err(_) => {
            acc.inc("frames.invalid_rejected");
            acc.cover("frames-invalid", &[kind]);
        }
        Ok(v) => acc.viol(format!("frames: payload {} ({label}) must be rejected but decodes to {v:?}", hex(&bytes))),
    }
    // the re-encoder shares the decoder; it must fail the same way, not panic
    match guard(|| reencode_frames(&bytes, true, 1 << 20)) {
        Ok(Err(_)) => {}
        Ok(Ok(b)) => acc.viol(format!("frames: payload {} ({label}) re-encoded to {}", hex(&bytes), hex(&b))),
        Err(p) => report_panic(acc, "frame::Iter (re-encode path)", &bytes, &p),
    }
}

fn random_case(seed: u64, per_case: u64, trace: bool) -> CaseOut {
    let mut acc = Acc::new(trace);
    let mut r = Rng::new(seed);
    for i in 0..per_case {
        if i % 8 == 7 {
            check_invalid(&mut acc, &mut r);
        } else {
            let frames = gen_sequence(&mut r);
            acc.tr(|| format!("{frames:?}"));
            check_valid(&mut acc, &frames, &mut r);
        }
        if acc.out.viol.len() >= 4 {
            break;
        }
    }
    if seed % 53 == 0 {
        let f = gen_sequence(&mut r);
        sample("frames", serde_json::json!({"frames": render_all(&f), "bytes": hex(&encode_all(&f, None))}));
    }
    acc.finish()
}

/// Every varint field of frame kind `kind` at every value of EDGE (cartesian product), all flags.
fn edge_case(kind: u64, seed: u64, trace: bool) -> CaseOut {
    let mut acc = Acc::new(trace);
    let mut r = Rng::new(seed ^ 0xED6E);
    let e = EDGE;
    let run = |acc: &mut Acc, f: Frame, r: &mut Rng| {
        check_valid(acc, std::slice::from_ref(&f), r);
        // and followed by another frame, so that the frame is not last
        if !matches!(f, Frame::Stream { explicit_len: false, .. } | Frame::Datagram { explicit_len: false, .. }) {
            check_valid(acc, &[f, Frame::Ping], r);
        }
    };
    let tok: [u8; 16] = r.bytes(16).try_into().unwrap();
    match kind {
        0 => {
            for n in [1usize, 2, 63, 64, 1200] {
                run(&mut acc, Frame::Padding(n), &mut r);
            }
        }
        1 => run(&mut acc, Frame::Ping, &mut r),
        2 => {
            // single range: largest x delay x first-range x ecn
            for &largest in &e {
                for &delay in &e {
                    for first in [0, 1, largest / 2, largest] {
                        for ecn in [None, Some((0, 0, 0)), Some((VARINT_MAX, VARINT_MAX, VARINT_MAX)), Some((63, 16384, 1 << 30))] {
                            run(&mut acc, Frame::Ack { largest, delay, ranges: vec![(largest - first.min(largest), largest)], ecn }, &mut r);
                        }
                    }
                }
            }
            // 1..=64 ranges (and a few beyond), with and without ECN
            for n in (1..=64).chain([65, 100, 255, 256]) {
                for ecn in [false, true] {
                    for _ in 0..3 {
                        let f = gen_ack(&mut r, n, ecn);
                        run(&mut acc, f, &mut r);
                    }
                }
            }
            // densest and sparsest shapes: all gaps 0 / all lengths 0 down to exactly packet 0
            for n in [2u64, 3, 64] {
                let largest = 2 * (n - 1);
                let ranges: Vec<(u64, u64)> = (0..n).map(|i| (largest - 2 * i, largest - 2 * i)).collect();
                run(&mut acc, Frame::Ack { largest, delay: 0, ranges, ecn: None }, &mut r);
            }
        }
        3 => {
            for &id in &e {
                for &code in &e {
                    for &final_size in &e {
                        run(&mut acc, Frame::ResetStream { id, code, final_size }, &mut r);
                    }
                }
            }
        }
        4 => {
            for &id in &e {
                for &code in &e {
                    run(&mut acc, Frame::StopSending { id, code }, &mut r);
                }
            }
        }
        5 => {
            for &off in &e {
                for len in [0usize, 1, 63, 64, 1200, 16383, 16384] {
                    run(&mut acc, Frame::Crypto { off, data: r.bytes(len) }, &mut r);
                }
            }
        }
        6 => {
            for len in [0usize, 1, 63, 64, 200, 16383, 16384] {
                run(&mut acc, Frame::NewToken { token: r.bytes(len) }, &mut r);
            }
        }
        7 => {
            // all 8 flag combinations x id x offset x length
            for flags in 0..8u8 {
                for &id in &e {
                    for &off in &e {
                        for len in [0usize, 1, 63, 64, 1200] {
                            let explicit_off = flags & 4 != 0;
                            if !explicit_off && off != 0 {
                                continue; // without the OFF bit the offset is 0 by definition
                            }
                            run(
                                &mut acc,
                                Frame::Stream { id, off, fin: flags & 1 != 0, data: r.bytes(len), explicit_len: flags & 2 != 0, explicit_off },
                                &mut r,
                            );
                        }
                    }
                }
            }
        }
        8 => {
            for &v in &e {
                run(&mut acc, Frame::MaxData(v), &mut r);
                run(&mut acc, Frame::DataBlocked(v), &mut r);
                run(&mut acc, Frame::RetireConnectionId { seq: v }, &mut r);
                for bidi in [false, true] {
                    run(&mut acc, Frame::MaxStreams { bidi, max: v }, &mut r);
                    run(&mut acc, Frame::StreamsBlocked { bidi, limit: v }, &mut r);
                }
            }
        }
        9 => {
            for &id in &e {
                for &max in &e {
                    run(&mut acc, Frame::MaxStreamData { id, max }, &mut r);
                    run(&mut acc, Frame::StreamDataBlocked { id, limit: max }, &mut r);
                }
            }
        }
        14 => {
            for &seq in &e {
                for &rpt in &e {
                    if rpt > seq {
                        continue;
                    }
                    for len in 1..=20usize {
                        run(&mut acc, Frame::NewConnectionId { seq, retire_prior_to: rpt, cid: r.bytes(len), token: tok }, &mut r);
                    }
                }
            }
        }
        16 => {
            for v in [0u64, 1, u64::MAX, 0x0102_0304_0506_0708, 1 << 63] {
                run(&mut acc, Frame::PathChallenge(v), &mut r);
                run(&mut acc, Frame::PathResponse(v), &mut r);
            }
        }
        18 => {
            for &code in &e {
                for &frame_type in &e {
                    for len in [0usize, 1, 63, 64, 300] {
                        run(&mut acc, Frame::ConnectionClose { code, frame_type, reason: r.bytes(len) }, &mut r);
                    }
                }
                for len in (0..=300usize).chain([1199, 1200, 16383, 16384]) {
                    if code == 0 || len % 50 == 0 {
                        run(&mut acc, Frame::ConnectionClose { code, frame_type: 0x1c, reason: r.bytes(len) }, &mut r);
                        run(&mut acc, Frame::ApplicationClose { code, reason: r.bytes(len) }, &mut r);
                    }
                }
            }
        }
        20 => {
            run(&mut acc, Frame::HandshakeDone, &mut r);
            run(&mut acc, Frame::ImmediateAck, &mut r);
        }
        21 => {
            for explicit_len in [false, true] {
                for len in (0..=70usize).chain([1199, 1200, 16383, 16384, 65535]) {
                    run(&mut acc, Frame::Datagram { data: r.bytes(len), explicit_len }, &mut r);
                }
            }
        }
        22 => {
            for &seq in &e {
                for &threshold in &e {
                    for &max_ack_delay in &e {
                        for &reordering in &e {
                            run(&mut acc, Frame::AckFrequency { seq, threshold, max_ack_delay, reordering }, &mut r);
                        }
                    }
                }
            }
        }
        _ => {}
    }
    acc.finish()
}

/// `Close::encode` with a limited `max_len`: the reason is truncated to a prefix, code and frame
/// type survive. (Whether the frame then fits `max_len` is a size-budget question outside C10; it
/// is counted in `frames.close_over_budget` for the record.)
fn close_budget_case(seed: u64, per_case: u64, trace: bool) -> CaseOut {
    let mut acc = Acc::new(trace);
    let mut r = Rng::new(seed);
    for _ in 0..per_case {
        acc.input();
        let app = r.bool();
        let reason = { let n_ = r.usize(400); r.bytes(n_) };
        let code = vi(&mut r);
        let ft = vi(&mut r);
        let f = if app { Frame::ApplicationClose { code, reason: reason.clone() } } else { Frame::ConnectionClose { code, frame_type: ft, reason: reason.clone() } };
        let bytes = encode_all(std::slice::from_ref(&f), None);
        // production guarantees max_len > SIZE_BOUND (25 resp. 17)
        let max_len = 26 + r.usize(500);
        let re = match guard(|| reencode_frames(&bytes, true, max_len)) {
            Ok(Ok(x)) => x,
            Ok(Err(e)) => {
                acc.viol(format!("frames: close frame {} not re-encodable: {e}", hex(&bytes)));
                continue;
            }
            Err(p) => {
                report_panic(&mut acc, &format!("Close::encode(max_len={max_len})"), &bytes, &p);
                continue;
            }
        };
        if re.len() > max_len {
            acc.inc("frames.close_over_budget");
        }
        match wire::decode_frames(&re).as_deref() {
            Ok([Frame::ApplicationClose { code: c, reason: rs }]) if app && *c == code && reason.starts_with(rs) && (rs.len() == reason.len() || re.len() + 8 >= max_len) => {}
            Ok([Frame::ConnectionClose { code: c, frame_type: t, reason: rs }])
                if !app && *c == code && *t == ft && reason.starts_with(rs) && (rs.len() == reason.len() || re.len() + 8 >= max_len) => {}
            other => {
                acc.viol(format!("frames: close frame {f:?} encoded with max_len={max_len} as {} which reads back as {other:?}", hex(&re)));
                continue;
            }
        }
        acc.inc("frames.close_budget_agree");
        acc.cover("frames-close", &[app as u64, size_class(code), (reason.len() + 30 > max_len) as u64]);
    }
    acc.finish()
}

pub fn run(ctx: &Ctx, cfg: &Cfg, rep: &mut Report) {
    if cfg.shard.0 == 0 && cfg.lane != Lane::Miri {
        let g = Group { name: "frames-every-field-at-edges", cases: KINDS, budget_s: 1e9, exhaustive: true };
        run_group(ctx, rep, &g, |idx, _, tr| edge_case(idx, ctx.seed, tr));
    }
    let per_case = cfg.per_case(512, 4096, 6);
    let g = Group { name: "frames-random-sequences", cases: cfg.cases(5120, 16384), budget_s: cfg.budget(45.0, 400.0, 0.22), exhaustive: false };
    run_group(ctx, rep, &g, |_, seed, tr| random_case(seed, per_case, tr));
    let g = Group { name: "frames-close-budget", cases: cfg.cases(128, 512), budget_s: cfg.budget(5.0, 60.0, 0.03), exhaustive: false };
    run_group(ctx, rep, &g, |_, seed, tr| close_budget_case(seed, per_case.min(1024), tr));
}
