#!/usr/bin/env python3
"""Regenerate /verif/MANIFEST.json from the table below (kept in one place so it stays valid)."""
import json, os, subprocess
HERE = os.path.dirname(os.path.abspath(__file__))
ROOT = os.path.dirname(HERE)
props = [json.loads(l) for l in open(os.path.join(ROOT, "properties.jsonl"))]

# id -> (category, technique, text, note, design_ref)
CHECKS = {
 "C01": ("exploration",
  "runtime monitoring: online oracle at every read (self-identifying payload + reference range set) over seeded fault-injected simulations, both crypto lanes",
  "Every byte returned by RecvStream::read is compared with a pure function of (pair, writer, stream, offset); ordered reads must be gap-free, unordered reads non-overlapping, end-of-stream only with exactly [0, finish offset) delivered, resets only with the sender's (or our stop's) code. Held on the executions produced (hundreds quick / tens of thousands thorough), under loss/dup/reorder/corruption/ECN/MTU faults, key updates, rebinding and random driver schedules.",
  "trusts the harness payload generator, reference Ranges set and the null-crypto session (a second lane runs rustls+ring); says nothing about executions not generated",
  "DESIGN.md section 4 C01"),
}
NOT_YET = "check not built yet (work in progress; see DESIGN.md section 4)"

hook_commits = subprocess.run(["git", "-C", "/repo", "log", "--format=%h %s", "--grep=^verif hooks"], capture_output=True, text=True).stdout.strip().splitlines()
m = {
 "version": 1,
 "setup_cmd": "./setup.sh",
 "hooks": {
  "guard": "cargo feature `verif` on quinn-proto, quinn and quinn-udp (off by default)",
  "enable": "the harness crate /verif/harness depends on /repo's crates by path with features=[\"verif\"]; every check runs `cargo build` there first, so /repo's working tree is recompiled with hooks on",
  "baseline_off_cmd": "cd /repo && (cargo nextest run --workspace --no-fail-fast --test-threads 8 --offline || cargo test --workspace --no-fail-fast --offline)",
  "source_commits": [c.split()[0] for c in hook_commits],
  "add_only": True,
 },
 "engines": [
  {"name": "qv", "path": "harness", "serves_properties": sorted(CHECKS), "kind_free_text": "Rust harness: virtual-time simulated QUIC worlds over quinn-proto's sans-IO API with fault-injecting network, null and rustls crypto lanes, independent wire codec, online monitors and offline history checkers"},
 ],
 "checks": [],
 "not_applicable": [],
 "notes": "Technique family: runtime monitoring and sanitizers. Verdicts are three-valued: exit 0 held on what was observed, exit 1 VIOLATION, exit 2 inconclusive (coverage floor not met / harness error).",
}
for p in props:
    pid = p["id"]
    if pid in CHECKS:
        cat, tech, text, note, ref = CHECKS[pid]
        m["checks"].append({
         "property_id": pid,
         "quick_cmd": f"./run {pid} quick",
         "thorough_cmd": f"./run {pid} thorough",
         "evidence_file": f"/verif/evidence/{pid}.json",
         "replay_cmd_template": f"./harness/target/fast/qv check {pid} --replay {{path}}",
         "engine": "qv",
         "level_claimed": {"category": cat, "text": text, "design_ref": ref},
         "level_note": note,
         "technique": tech,
        })
    else:
        m["not_applicable"].append({"property_id": pid, "reason": NOT_YET})
json.dump(m, open(os.path.join(ROOT, "MANIFEST.json"), "w"), indent=1)
print("claimed:", sorted(CHECKS))
