#!/usr/bin/env python3
"""Regenerate /verif/MANIFEST.json from the table below (kept in one place so it stays valid)."""
import json, os, subprocess
HERE = os.path.dirname(os.path.abspath(__file__))
ROOT = os.path.dirname(HERE)
props = [json.loads(l) for l in open(os.path.join(ROOT, "properties.jsonl"))]

# id -> (category, technique, text, note, design_ref)
CHECKS = {
 "C01": ("exploration",
  "runtime monitoring: online oracle at every read (self-identifying payload + reference range set) over seeded fault-injected simulations, both crypto lanes",
  "Every byte returned by RecvStream::read is compared with a pure function of (pair, writer, stream, offset); ordered reads must be gap-free, unordered reads non-overlapping, end-of-stream only with exactly [0, finish offset) delivered, resets only with the sender's (or our stop's) code. Held on the executions produced (hundreds quick / tens of thousands thorough), under loss/dup/reorder/corruption/ECN/MTU faults, key updates, rebinding and random driver schedules.",
  "trusts the harness payload generator, reference Ranges set and the null-crypto session (a second lane runs rustls+ring); says nothing about executions not generated",
  "DESIGN.md section 4 C01"),
 "C02": ("fault_enumeration",
  "runtime monitoring: stuck-world oracle + bounded-progress oracle over enumerated and random loss in virtual time",
  "Exhaustive dropping of every subset of the first K datagrams per direction (K=7 quick / 11 thorough, 6 configurations) plus seeded random worlds (all controllers incl. tiny fixed windows, pacing, ack-frequency, MTU discovery, keep-alive, limits 0-then-raised, run-time window/limit changes, key updates, rebinding, pre-handshake writes, CID rotation, random driver schedules) with strictly event-driven applications. A sans-IO world with no timer armed, nothing in flight and an incomplete workload is provably stuck (sound, unbounded); otherwise completion is required within 3600 s of virtual time after the short fault window. Unbounded liveness under perpetual loss is out of reach and restated as this bounded progress.",
  "liveness is restated as bounded progress after faults stop; fault windows are kept short relative to the PTO so exponential back-off cannot legitimately exceed the bound; known findings (pad_to_mtu, ACK starvation under congestion blocking) are matched by tags computed from the end state",
  "DESIGN.md section 4 C02"),
 "C05": ("exploration",
  "runtime monitoring: independent credit ledger over decoded wire frames (plaintext lane) + API return values + H1 probe",
  "Every STREAM/RESET_STREAM frame of every emitted datagram is checked against a ledger built from the peer's transport parameters and every MAX_DATA/MAX_STREAM_DATA/MAX_STREAMS frame at the instant it is delivered; write() results, unacked_data vs send_window (probe), and absence of flow-control/stream-limit errors between honest peers. Held on the executions produced.",
  "ledger is a superset of the sender's knowledge (can miss, cannot false-alarm); plaintext lane only; 0-RTT with differing remembered parameters is covered by C17",
  "DESIGN.md section 4 C05"),
 "C07": ("exploration",
  "runtime monitoring: per-(connection, address, path instance) byte accounting of every transmit vs every delivery, both crypto lanes",
  "Before each datagram a server sends to an address not yet validated (Handshake packet delivered from it, validated token, PATH_RESPONSE delivered) sent+1 <= 3 x delivered-from-that-address must hold; stateless resets strictly smaller than the inciting datagram and rate-limited. Workloads: large first flights, lost client flights (only server timers fire), vanishing clients, retry/held incoming, rebinding, junk short-header datagrams.",
  "credited bytes are a superset of what quinn credits; on the rustls lane path validation after migration falls back on the probe flag; cumulative accounting across repeated failed migrations is a recorded known finding",
  "DESIGN.md section 4 C07"),
 "C12": ("exploration",
  "runtime monitoring: wire-level congestion gate with H1 bytes-in-flight probe, conservation invariants, clean-path loss oracle, direct-drive controller histories",
  "Gate: every non-exempt ack-eliciting datagram decoded on the plaintext lane must leave bytes in flight below the controller window (harness controllers with fixed/adversarial windows and the built-in ones); conservation: no tracked packet => nothing in flight, nothing ack-eliciting in flight after completion + idle; clean FIFO path => no packet declared lost; built-in controllers' window >= 2 datagrams in vivo and under random direct call histories.",
  "plaintext lane for the gate; BBR floor/overflow results are recorded known findings; STREAMS_BLOCKED piggy-backing is reported separately if it ever trips the gate",
  "DESIGN.md section 4 C12"),
 "C13": ("exploration",
  "runtime monitoring: per-datagram size monitor against current_mtu()/probe counters + MTU estimate history + black-hole completion",
  "Every segment of every transmit <= the MTU estimate read before the call (single probe excepted and bounded), GSO segments uniform, client Initial and path-validation datagrams >= 1200, loss probes <= 1200, estimate rises only to a delivered probe size and never below the floor, workloads complete across path-MTU drops.",
  "pad_to_mtu excluded (known finding under C02); probe acknowledgement itself is not observed",
  "DESIGN.md section 4 C13"),
 "C16": ("exploration",
  "runtime monitoring: self-identifying datagram payloads + admission reference model + arrival-order suffix oracle",
  "Every received datagram equals one accepted by send(), at most once; send() agrees with the reference admission model (TooLarge/Blocked/Ok, buffer space arithmetic); a non-reading receiver on a FIFO path holds a suffix of the arrival order; wire DATAGRAM payloads within the peer limit.",
  "arrival order taken from decoded DATAGRAM frames on the plaintext lane",
  "DESIGN.md section 4 C16"),
 "C08": ("fault_enumeration",
  "runtime monitoring: trace oracles over close/vanish/idle endings injected after every prefix of a scripted exchange, virtual time, both crypto lanes",
  "For exchange prefixes {0..300 steps} x endings {close by client / server / both, either peer vanishing, both idle} x idle-timeout/keep-alive matrix x window-limited closers: ConnectionLost at most once (and not after a reported loss), first transmit after close() carries CONNECTION_CLOSE, only the Close timer remains and drain happens within 3 PTO, exactly one Drained event after which the endpoint forgets the connection (open_connections, routing, silence), the peer learns the closer's exact code/reason over a delivering path, TimedOut within [last rx + idle, last restart + max(idle, 3 PTO)], no TimedOut with keep-alives.",
  "negotiated idle timeout recomputed from both configurations; lateness of the simulated driver added to upper bounds; amplification-limited closers and zombie connections born from duplicated Initials are excused; Reset reported after a local close is a recorded known finding (required by the repository's own test)",
  "DESIGN.md section 4 C08"),
 "C09": ("exploration",
  "runtime monitoring: routing oracle on every delivered datagram (producing connection's pair id vs the handle the endpoint returns) + per-pair payload keys + isolation oracle",
  "Worlds with 2-8 client endpoints and several connections per endpoint on one server, CID lengths 0..20, three CID generators, CID rotation by lifetime, rebinding, connections closed mid-run and slots reused, quick reconnects to an address-routed (zero-length CID) server: every genuine datagram must be routed to its producer's own peer or to nothing, payloads are keyed by pair so leaks trip the C01/C16 oracles, connections nobody closed are never lost and complete.",
  "pairing by harness-chosen initial DCID; an endpoint with zero-length CIDs is allowed to route by address tuple as the property states",
  "DESIGN.md section 4 C09"),
 "C20": ("exploration",
  "runtime monitoring: differential trace comparison of replayed, time-translated and spurious-call executions + strace syscall monitor",
  "Each input history is executed four times and the full output trace (instant, destination, ECN, segment size, byte hash of every Transmit; every Event and EndpointEvent) compared: exact replay, all instants shifted by 1 us..49 days, spurious handle_timeout / extra poll calls inserted. Timer servicing at one instant settles within 64 rounds, poll_transmit after None stays None, drained connections are silent for every poll, and a steady-state transfer under strace performs no getrandom().",
  "plaintext lane with seeded endpoints, harness CID generator and virtual TimeSource; rustls lane and thread-RNG CID generators are out of scope by construction",
  "DESIGN.md section 4 C20"),
 "C04": ("exploration",
  "runtime monitoring: duplicate-delta and forged-datagram oracles on every delivery, frame conservation (receiver frame_rx <= sender frame_tx), forged-injection insensitivity, reset-token acceptance oracle; rustls and plaintext lanes",
  "Heavy duplication and late verbatim replays (including the connection-creating Initial) and forged variants of genuine datagrams (bit flips, truncation, cross-connection header splice, garbage, altered tags): a datagram already authenticated once changes no frame counter when delivered again, a forged one changes none, counters balance per frame type, a loss-free run with 40 % forged injections ends with the same per-stream outcomes as without, and only the exact issued reset token for the CID in use resets a connection.",
  "forging is sampled (none of the injected variants was accepted), not excluded; plaintext-lane truncation forgeries are excluded because plaintext exposes reset tokens",
  "DESIGN.md section 4 C04"),
 "C03": ("exploration",
  "runtime monitoring: hostile-peer workloads (authenticated frame injection hook, transport-parameter rewriting, unauthenticated datagram injection) under panic capture, error-class oracle, quiescence / response-count / retained-memory monitors (counting allocator) and a bystander-connection oracle",
  "Five workload groups against unmodified victims (server or client; ack-frequency on/off; CID lengths 0/8/20; datagrams on/off; tiny limits), each with a bystander connection on the victim endpoint that must complete undisturbed: 30 kinds of well-understood illegal frames with the close code QUIC prescribes; random / boundary-valued / malformed frame scripts in all three packet-number spaces; floods of ten kinds of state-touching frames with bounded response count and bounded retained memory; TLV-level mutations of transport parameters; structure-aware mutations of genuine datagrams and noise handed to Endpoint::handle in every connection state. Panics anywhere in quinn are caught and attributed by backtrace.",
  "memory is observed as bytes retained by the case's thread (includes harness bookkeeping, bound leaves room); aborts (not panics) would kill the run; on the plaintext lane stateless-reset tokens are visible to the attacker, so resets are not judged here; growth of about 54 bytes per hostile packet against a peer that never acknowledges (sparse sent-packet deque) is below the flood bound and only measured",
  "DESIGN.md section 4 C03"),
 "C06": ("exploration",
  "runtime monitoring: authenticated hostile frames (injection hook) against a reference model of the limits the victim advertised on the wire + credit monitor against the application-side ledger + buffered-bytes probe",
  "Scripts of 1-8 correctly protected hostile frames probe every limit at limit-1/limit/limit+1 (stream and connection flow control, stream counts, final sizes via FIN and RESET_STREAM, DATAGRAM sizes, CRYPTO offsets) against server and client victims, reading (ordered/unordered/stop) or not, with set_receive_window in between, over a grid of window / stream-count / buffer configurations. The limits are those decoded from the victim's own packets; a reference model predicts accept or the admissible close codes; both the victim's ConnectionLost and the code its peer receives must match; accepted bytes are verified by the reading application and never lie beyond the advertised limit or final size; the reassembly buffers stay within the windows plus quinn's documented slack. In honest worlds every MAX_DATA / MAX_STREAM_DATA on the wire is bounded by what the application had consumed or discarded at that instant plus the window.",
  "a frame on a stream whose final size is already known may be ignored by a victim that may have forgotten the stream; DATAGRAM payloads that fit the buffer but whose frame header exceeds max_datagram_frame_size are left to the receiver; exact CRYPTO boundary is not probed (consumed offset unknown from outside)",
  "DESIGN.md section 4 C06"),
 "C11": ("exploration",
  "runtime monitoring: lock-step comparison of the real stream API with an executable reference model over exhaustively enumerated and random operation sequences",
  "Every operation sequence up to depth 5/6 (unidirectional, 11-operation alphabet) and 4/5 (bidirectional, 19 operations), plus random sequences of length 6..40, is run on a fresh connected pair and on a small reference model; return value classes, Finished/Stopped event multisets, stray events and the open-stream count are compared after every operation. The honest-world application oracles (second Connected, accept() of local ids, ...) add in-vivo coverage.",
  "exhaustive only up to the stated depth and alphabet; one stream per sequence; plaintext lane",
  "DESIGN.md section 4 C11"),
 "C14": ("exploration",
  "runtime monitoring: token presentation oracle (genuine tokens captured through a recording TokenStore / from the wire, then presented mutated, moved, delayed and replayed; verdict read from Incoming::remote_address_validated and the client's close code) + wire census of the tokens a client puts in its Initials under in-flight Retry corruption + reference-set monitors over BloomTokenLog and TokenMemoryCache histories",
  "A reference predicate (unchanged, issued by this server's key, right address - exact for Retry, IP for NEW_TOKEN -, within lifetime, first use, log present) is compared with what the server concluded for ~6000 quick / 400000 thorough presentations across key kinds (ring HKDF+AEAD, keyed hash), log kinds, lifetimes, seven mutation kinds, three source addresses and five presentation times; clients never follow an altered Retry (seven field mutations, plaintext and rustls lanes), follow a genuine one once, ignore a verifying Retry once another server packet was processed; altered CID-echo parameters never yield Connected; the token log never accepts a nonce twice and the token cache never hands a token out twice or to the wrong server over long random histories.",
  "forgeries are sampled, not excluded; expiry is probed 3 s around the lifetime; a verifying forged Retry can only be built on the plaintext lane (harness tag function)",
  "DESIGN.md section 4 C14"),
 "C15": ("exploration",
  "runtime monitoring: per-connection log of every Transmit.destination judged against the harness's ground truth of genuine client addresses over time and of attacker replays (source, time, bytes); completion and loss oracles; C07 amplification monitor on each new path",
  "Worlds with 1-4 genuine address changes (port-only / whole address, with and without local_address_changed) during bidirectional transfers under loss and CID rotation (plaintext and rustls lanes): transfers complete, nothing is lost, the server only ever sends to addresses the client really used and ends at its final one, each new path respects the 3x limit. Worlds where an attacker replays genuine client datagrams from third addresses, racing or trailing the original: transmits to such an address stay within 3 PTO of the last replay and within 3x the replayed bytes (plus the documented one-datagram allowance per visit), remote_address() ends genuine, the transfer completes. Clients and servers with migration disabled never send a single datagram elsewhere.",
  "PTO taken as the maximum reported through the probe; pad_to_mtu / BBR / tiny fixed windows excluded (their findings live under C02 / C12); cumulative amplification across repeated visits to the same spoofed address is the finding recorded under C07",
  "DESIGN.md section 4 C15"),
 "C17": ("fault_enumeration",
  "runtime monitoring: application-boundary ledger (exactly-once, byte-exact, epoch-keyed payloads) + state oracles evaluated at the instant the client learns of a rejection, over enumerated loss of the early flight and random faults, plaintext and rustls lanes",
  "Two connections per world (ticket, then early writes of streams of both directions, finishes, resets and datagrams); server accepting or refusing early data, directly / after Retry / late (buffered early packets), with equal, larger or (when refusing) smaller new transport parameters. Every subset of the client's first 6 (quick) / 9 (thorough) datagrams is dropped in several configurations, plus random drop/dup/reorder worlds. Accepted early data is delivered exactly once and byte-exact; on rejection the server application holds nothing of the attempt, early streams answer ClosedStream, numbering / accounting / limits restart from the new values, and late leaks are caught because post-rejection data is keyed differently.",
  "rustls acceptance policy is not judged (refusals by a willing server only counted); C05's wire ledger is off in worlds where the refusing server's new limits are below the remembered ones",
  "DESIGN.md section 4 C17"),
 "C10": ("exploration",
  "runtime monitoring: round-trip and totality oracles over quinn's real codecs (hooks H3) against an independent wire codec, with exhaustive sub-spaces; the same sweeps repeated under AddressSanitizer and Miri",
  "encode->decode->compare for varints (all 2^30 four-byte values, all 1/2-byte values), packet numbers (window sweeps around 2^7/2^15/2^23/2^31), every frame type with boundary-valued fields, headers (type x CID length x pn length x token length), transport parameters, tokens and reset tokens; decoders fed arbitrary and mutated bytes must return an error or a value that re-encodes consistently, never panic, never read out of bounds (ASan, Miri lanes). Held on 5.6e7 inputs quick / 5.5e9 thorough.",
  "the independent codec (harness/src/wire.rs) is the reference; Miri volume is small (interpreter speed); observations about lenient transport-parameter parsing are printed as NOTE lines, not judged",
  "DESIGN.md section 4 C10; codecharness/NOTES.md"),
 "C18": ("exploration",
  "runtime monitoring: deterministic executor with a seeded scheduler over quinn's async API (virtual runtime and in-memory network), cancellation at every await point, lost-wakeup probes, waker/registration census through hook H4, teardown and data-integrity oracles; real tokio scheduler lane under ThreadSanitizer and AddressSanitizer",
  "Programs of concurrent async operations (open/accept/read/write/finish/reset/stop/stopped/received_reset/datagrams/close, 0-RTT) run under many seeded interleavings with futures dropped at arbitrary poll points; after every quiescent point a spurious poll of each pending future must still be pending (no lost wakeup), the connection's waker tables must hold exactly the live registrations (census), and teardown must wake everything; the same programs on multi-threaded tokio under TSan/ASan report no race or memory error.",
  "deterministic lanes cannot preempt inside a poll (one equivalent mutant documented); TSan/ASan lanes run in thorough only",
  "DESIGN.md section 4 C18; aioharness/NOTES.md"),
 "C19": ("exploration",
  "runtime monitoring: byte-for-byte datagram comparison over real loopback sockets through quinn-udp (GSO/GRO/ECN/pktinfo grid), cmsg encode/decode model via hook H5, LD_PRELOAD fault shim for degraded kernels, AddressSanitizer / valgrind / Miri lanes, strace-free syscall accounting",
  "Every payload length, segment size x segment count, ECN codepoint, address family and source-address combination is sent through UdpSocketState::send/recv on loopback and compared with what was handed in (contents, boundaries, ECN, destination address); control-message encoders and decoders are checked against an independent model over exact-size buffers (out-of-bounds = ASan/Miri report); eight fault modes (EIO/EINVAL on GSO, ENOSYS recvmmsg, unsupported cmsgs ...) must degrade without losing or corrupting datagrams.",
  "loopback only (no real NIC offload); five recorded known findings (GRO batches lose ECN, GSO fallback drops the triggering transmit, ECN off after EIO fallback, cmsg aliasing UB under Stacked/Tree Borrows, stale socket error)",
  "DESIGN.md section 4 C19; udpharness/NOTES.md"),
}
# id -> (quick, thorough, replay template, engine)
CMDS = {
 "C10": ("./run_c10 quick", "./run_c10 thorough", "./codecharness/target/fast/qvcodec check C10 --replay {path}", "qvcodec"),
 "C18": ("./run_c18 quick", "./run_c18 thorough", "./aioharness/target/fast/qvaio check C18 --replay {path}", "qvaio"),
 "C19": ("./run_c19 quick", "./run_c19 thorough", "./udpharness/target/fast/qvudp check C19 --replay {path}", "qvudp"),
}
NOT_YET = "check not built yet (work in progress; see DESIGN.md section 4)"

hook_commits = subprocess.run(["git", "-C", "/repo", "log", "--format=%h %s", "--grep=^verif hooks"], capture_output=True, text=True).stdout.strip().splitlines()
m = {
 "version": 1,
 "setup_cmd": "./setup.sh",
 "hooks": {
  "guard": "cargo feature `verif` on quinn-proto, quinn and quinn-udp (off by default)",
  "enable": "the harness crate /verif/harness depends on /repo's crates by path with features=[\"verif\"]; every check runs `cargo build` there first, so /repo's working tree is recompiled with hooks on",
  "baseline_off_cmd": "cd /repo && (cargo nextest run --workspace --no-fail-fast --test-threads 8 --offline || cargo test --workspace --no-fail-fast --offline)",
  "source_commits": [c.split()[0] for c in hook_commits],
  "add_only": True,
 },
 "engines": [
  {"name": "qvcodec", "path": "codecharness", "serves_properties": ["C10"], "kind_free_text": "Rust harness over quinn-proto's codecs (hooks H3): exhaustive/random round-trip and totality sweeps; fast, ASan and Miri lanes"},
  {"name": "qvaio", "path": "aioharness", "serves_properties": ["C18"], "kind_free_text": "Rust harness over the quinn async API: deterministic executor with seeded scheduler, virtual runtime/network, census hook H4; real tokio lane under TSan/ASan"},
  {"name": "qvudp", "path": "udpharness", "serves_properties": ["C19"], "kind_free_text": "Rust harness over quinn-udp on real loopback sockets with an LD_PRELOAD fault shim (shims/faultudp.c), cmsg model via hook H5; ASan, valgrind and Miri lanes"},
  {"name": "qv", "path": "harness", "serves_properties": sorted(k for k in CHECKS if k not in CMDS), "kind_free_text": "Rust harness: virtual-time simulated QUIC worlds over quinn-proto's sans-IO API with fault-injecting network, null and rustls crypto lanes, independent wire codec, online monitors and offline history checkers"},
 ],
 "checks": [],
 "not_applicable": [],
 "notes": "Technique family: runtime monitoring and sanitizers. Verdicts are three-valued: exit 0 held on what was observed, exit 1 VIOLATION, exit 2 inconclusive (coverage floor not met / harness error).",
}
for p in props:
    pid = p["id"]
    if pid in CHECKS:
        cat, tech, text, note, ref = CHECKS[pid]
        q, th, rp, eng = CMDS.get(pid, (f"./run {pid} quick", f"./run {pid} thorough", f"./harness/target/fast/qv check {pid} --replay {{path}}", "qv"))
        m["checks"].append({
         "property_id": pid,
         "quick_cmd": q,
         "thorough_cmd": th,
         "evidence_file": f"/verif/evidence/{pid}.json",
         "replay_cmd_template": rp,
         "engine": eng,
         "level_claimed": {"category": cat, "text": text, "design_ref": ref},
         "level_note": note,
         "technique": tech,
        })
    else:
        m["not_applicable"].append({"property_id": pid, "reason": NOT_YET})
json.dump(m, open(os.path.join(ROOT, "MANIFEST.json"), "w"), indent=1)
print("claimed:", sorted(CHECKS))
