#!/bin/bash
# tools/seedin.sh <id> [round]: copy a finished seeded change of round 2 or 3 from its scratch worktree
# (/tmp/seed<round>-<id>/seed_out) into /verif/seeded/<id>-<round>
id=$1; rnd=${2:-2}; src=/tmp/seed$rnd-$id/seed_out; dst=/verif/seeded/$id-$rnd
mkdir -p $dst && cp $src/patch.diff $src/meta.json $dst/ && { cp $src/demo.diff $dst/ 2>/dev/null || cp $src/demo.* $src/README* $dst/ 2>/dev/null; }
git -C /repo apply --check $dst/patch.diff && echo "patch applies to /repo HEAD"
ls $dst
