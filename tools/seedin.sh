#!/bin/bash
# tools/seedin.sh <id>: copy a finished second-round seeded change from its scratch worktree into /verif/seeded/<id>-2
id=$1; src=/tmp/seed2-$id/seed_out; dst=/verif/seeded/$id-2
mkdir -p $dst && cp $src/patch.diff $src/meta.json $dst/ && { cp $src/demo.diff $dst/ 2>/dev/null || cp $src/demo.* $src/README* $dst/ 2>/dev/null; }
git -C /repo apply --check $dst/patch.diff && echo "patch applies to /repo HEAD"
ls $dst
