#!/bin/bash
# Run the repository's own test suite on /repo HEAD (guard off) in a scratch worktree.
set -u
WT=/tmp/wt-base
if [ ! -d "$WT" ]; then git -C /repo worktree add -q "$WT" HEAD; fi
cd "$WT" && git checkout -q --detach "$(git -C /repo rev-parse HEAD)" || exit 2
cargo test --workspace --no-fail-fast --offline 2>&1 | grep -E "^test .*FAILED|^test result" | awk '/FAILED/ {print} /test result/ {p+=$4; f+=$6} END {print "passed="p" failed="f}'
