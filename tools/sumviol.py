#!/usr/bin/env python3
"""Compact summary of 'detail:' lines of a check run (stdin): one line per violation plus
the connections that are not idle-and-done."""
import re
import sys

pat = re.compile(
    r"\[(\d/\d) (\w+) timers=(\[[^\]]*\]) in_flight=(\S+) pto_count=(\d+) window=(\d+) unacked=(\d+) "
    r"send_window=(\d+) data_sent=(\d+) max_data=(\d+) next=(\[[^\]]*\]) max=(\[[^\]]*\]) jobs_done=(\w+) connected=(\w+)\]"
)
n = 0
for l in sys.stdin:
    if "detail:" not in l:
        continue
    l = l.strip()
    n += 1
    if n > int(sys.argv[1]) if len(sys.argv) > 1 else 30:
        break
    head = l.split(";")[0][:110]
    print(head, "|", l.split("|")[-1][:110] if "|" in l else "")
    for c in pat.findall(l):
        if c[12] == "false" or c[2] != "[]" or c[3] != "0/0":
            print("    ", " ".join(c))
