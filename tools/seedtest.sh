#!/bin/bash
# tools/seedtest.sh <seed dir under /verif/seeded> <check id> [tier] [seed]
# Applies the seeded change to /repo's working tree, runs one check, restores /repo.
set -u
D=/verif/seeded/$1; ID=$2; TIER=${3:-quick}; SEED=${4:-1}
cd /repo || exit 2
[ -z "$(git status --porcelain)" ] || { echo "/repo not clean"; exit 2; }
git apply "$D/patch.diff" || { echo "patch does not apply"; exit 2; }
cd /verif
case $ID in
  C10) CMD="./run_c10 $TIER";; C18) CMD="./run_c18 $TIER";; C19) CMD="./run_c19 $TIER";; *) CMD="./run $ID $TIER";;
esac
VERIF_SEED=$SEED timeout 3000 $CMD > /tmp/seedtest-$1-$ID.out 2>&1
rc=$?
git -C /repo checkout -- . 
echo "seed=$1 check=$ID tier=$TIER seed=$SEED exit=$rc"
grep -m3 "^VIOLATION\|^  detail" /tmp/seedtest-$1-$ID.out | cut -c1-300
tail -1 /tmp/seedtest-$1-$ID.out | cut -c1-200
# evidence files were rewritten by a run against a modified tree: restore the committed ones
git -C /verif checkout -- evidence 2>/dev/null
exit 0
