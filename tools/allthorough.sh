#!/bin/bash
# tools/allthorough.sh <seed> [outdir] [ids...]: every registered thorough command (or only those of the given
# property ids) at one VERIF_SEED, one after the other
seed=${1:-1}; out=${2:-/tmp/allthorough-$seed}; shift; shift; only=" $* "; mkdir -p $out; cd /verif
python3 - <<PY > $out/cmds.txt
import json
for c in json.load(open('/verif/MANIFEST.json'))['checks']:
    print(c['property_id'], c['thorough_cmd'])
PY
while read id cmd; do
  if [ "$only" != "  " ] && [[ "$only" != *" $id "* ]]; then continue; fi
  s=$(date +%s)
  VERIF_SEED=$seed VERIF_TIER=thorough $cmd > $out/$id.txt 2>&1
  echo "$id exit=$? $(( $(date +%s) - s ))s $(grep -c '^VIOLATION' $out/$id.txt) viol | $(tail -1 $out/$id.txt | cut -c1-130)" >> $out/summary.txt
done < $out/cmds.txt
echo DONE >> $out/summary.txt
