#!/bin/bash
# tools/seediso.sh <seed dir under /verif/seeded> <check id> [tier] [seed]
# Like seedtest.sh for the qv checks, but isolated: the seeded change is applied to a scratch
# worktree of /repo, the harness is built against it into a scratch target directory, and evidence
# goes to a scratch directory. /repo, /verif/evidence and /verif/harness/target are not touched.
set -u
D=/verif/seeded/$1; ID=$2; TIER=${3:-quick}; SEED=${4:-1}
WT=/tmp/seediso-repo; TG=/tmp/seediso-target; EV=/tmp/seediso-ev
if [ ! -d $WT ]; then git -C /repo worktree add --detach $WT HEAD -q || exit 2; fi
git -C $WT checkout -q --detach $(git -C /repo rev-parse HEAD) && git -C $WT checkout -q -- . || exit 2
git -C $WT apply "$D/patch.diff" || { echo "patch does not apply"; exit 2; }
mkdir -p $EV/evidence; cp /verif/known_findings.json $EV/
cd /verif/harness
if ! out=$(CARGO_NET_OFFLINE=true cargo build --profile fast --offline --target-dir $TG --config "paths=[\"$WT/quinn-proto\",\"$WT/quinn\",\"$WT/quinn-udp\"]" 2>&1); then echo "$out" | tail -20; echo "build failed"; git -C $WT checkout -q -- .; exit 2; fi
QV_VERIF_DIR=$EV timeout 3000 $TG/fast/qv check $ID --tier $TIER --seed $SEED > /tmp/seediso-$1-$ID.out 2>&1
rc=$?
git -C $WT checkout -q -- .
echo "seed=$1 check=$ID tier=$TIER seed=$SEED exit=$rc"
grep -m3 "^VIOLATION\|^  detail" /tmp/seediso-$1-$ID.out | cut -c1-300
tail -1 /tmp/seediso-$1-$ID.out | cut -c1-200
