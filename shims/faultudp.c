/*
 * faultudp.so - LD_PRELOAD fault injector for the C19 degradation checks.
 *
 * Emulates kernels / drivers without UDP segmentation offload, receive offload, recvmmsg or the
 * IP_TOS control message by failing the corresponding libc calls.  Everything else is passed
 * through to the real function, so the datagrams that are sent travel through the real kernel.
 *
 * Selection by environment variables (read once, at first use):
 *   FAULTUDP_SENDMSG_GSO=EIO|EINVAL   sendmsg() carrying a UDP_SEGMENT cmsg fails with that errno
 *   FAULTUDP_SENDMSG_GSO_AFTER=N      ... only after N such calls succeeded on the same socket
 *   FAULTUDP_SENDMSG_TOS=EINVAL       sendmsg() carrying an IP_TOS cmsg fails (Linux < 3.13)
 *   FAULTUDP_SETSOCKOPT=segment,gro   setsockopt(SOL_UDP, UDP_SEGMENT / UDP_GRO) fails (ENOPROTOOPT)
 *   FAULTUDP_RECVMMSG=ENOSYS          recvmmsg() fails with ENOSYS
 *
 * Statistics are exported through faultudp_stats() so the harness can prove that faults were
 * really injected (looked up with dlsym(RTLD_DEFAULT, "faultudp_stats")).
 *
 * Build: cc -O2 -fPIC -shared -o faultudp.so faultudp.c -ldl
 */
#define _GNU_SOURCE
#include <dlfcn.h>
#include <errno.h>
#include <netinet/in.h>
#include <stdatomic.h>
#include <stdlib.h>
#include <string.h>
#include <sys/socket.h>
#include <sys/types.h>

#ifndef SOL_UDP
#define SOL_UDP 17
#endif
#ifndef UDP_SEGMENT
#define UDP_SEGMENT 103
#endif
#ifndef UDP_GRO
#define UDP_GRO 104
#endif

#define MAX_FD 65536

enum {
    ST_SENDMSG_CALLS = 0,
    ST_SENDMSG_GSO_SEEN,
    ST_SENDMSG_GSO_FAILED,
    ST_SENDMSG_TOS_FAILED,
    ST_SETSOCKOPT_FAILED,
    ST_RECVMMSG_FAILED,
    ST_RECVMMSG_CALLS,
    ST_SOCKETS,
    ST_N
};

static atomic_ulong stats[ST_N];
static atomic_uint gso_ok_per_fd[MAX_FD];

static int cfg_ready;
static int cfg_gso_errno;
static unsigned cfg_gso_after;
static int cfg_tos_errno;
static int cfg_fail_segment_opt;
static int cfg_fail_gro_opt;
static int cfg_recvmmsg_errno;

static ssize_t (*real_sendmsg)(int, const struct msghdr *, int);
static int (*real_setsockopt)(int, int, int, const void *, socklen_t);
static int (*real_recvmmsg)(int, struct mmsghdr *, unsigned int, int, struct timespec *);
static int (*real_socket)(int, int, int);

static int parse_errno(const char *s) {
    if (!s || !*s)
        return 0;
    if (!strcmp(s, "EIO"))
        return EIO;
    if (!strcmp(s, "EINVAL"))
        return EINVAL;
    if (!strcmp(s, "ENOSYS"))
        return ENOSYS;
    if (!strcmp(s, "ENOPROTOOPT"))
        return ENOPROTOOPT;
    return atoi(s);
}

static void init(void) {
    if (__atomic_load_n(&cfg_ready, __ATOMIC_ACQUIRE))
        return;
    real_sendmsg = dlsym(RTLD_NEXT, "sendmsg");
    real_setsockopt = dlsym(RTLD_NEXT, "setsockopt");
    real_recvmmsg = dlsym(RTLD_NEXT, "recvmmsg");
    real_socket = dlsym(RTLD_NEXT, "socket");
    cfg_gso_errno = parse_errno(getenv("FAULTUDP_SENDMSG_GSO"));
    const char *a = getenv("FAULTUDP_SENDMSG_GSO_AFTER");
    cfg_gso_after = a ? (unsigned)atoi(a) : 0;
    cfg_tos_errno = parse_errno(getenv("FAULTUDP_SENDMSG_TOS"));
    const char *o = getenv("FAULTUDP_SETSOCKOPT");
    if (o) {
        cfg_fail_segment_opt = strstr(o, "segment") != NULL;
        cfg_fail_gro_opt = strstr(o, "gro") != NULL;
    }
    cfg_recvmmsg_errno = parse_errno(getenv("FAULTUDP_RECVMMSG"));
    __atomic_store_n(&cfg_ready, 1, __ATOMIC_RELEASE);
}

/* out[0..ST_N) = counters; returns ST_N */
int faultudp_stats(unsigned long *out, int n) {
    for (int i = 0; i < ST_N && i < n; i++)
        out[i] = atomic_load(&stats[i]);
    return ST_N;
}

static int has_cmsg(const struct msghdr *msg, int level, int type) {
    if (!msg || !msg->msg_control || msg->msg_controllen < sizeof(struct cmsghdr))
        return 0;
    for (struct cmsghdr *c = CMSG_FIRSTHDR(msg); c; c = CMSG_NXTHDR((struct msghdr *)msg, c)) {
        if (c->cmsg_level == level && c->cmsg_type == type)
            return 1;
    }
    return 0;
}

int socket(int domain, int type, int protocol) {
    init();
    int fd = real_socket(domain, type, protocol);
    if (fd >= 0 && fd < MAX_FD) {
        atomic_store(&gso_ok_per_fd[fd], 0);
        atomic_fetch_add(&stats[ST_SOCKETS], 1);
    }
    return fd;
}

ssize_t sendmsg(int fd, const struct msghdr *msg, int flags) {
    init();
    atomic_fetch_add(&stats[ST_SENDMSG_CALLS], 1);
    if (has_cmsg(msg, SOL_UDP, UDP_SEGMENT)) {
        atomic_fetch_add(&stats[ST_SENDMSG_GSO_SEEN], 1);
        if (cfg_gso_errno) {
            unsigned done = (fd >= 0 && fd < MAX_FD) ? atomic_load(&gso_ok_per_fd[fd]) : 0;
            if (done >= cfg_gso_after) {
                atomic_fetch_add(&stats[ST_SENDMSG_GSO_FAILED], 1);
                errno = cfg_gso_errno;
                return -1;
            }
            if (fd >= 0 && fd < MAX_FD)
                atomic_fetch_add(&gso_ok_per_fd[fd], 1);
        }
    }
    if (cfg_tos_errno && has_cmsg(msg, IPPROTO_IP, IP_TOS)) {
        atomic_fetch_add(&stats[ST_SENDMSG_TOS_FAILED], 1);
        errno = cfg_tos_errno;
        return -1;
    }
    return real_sendmsg(fd, msg, flags);
}

int setsockopt(int fd, int level, int optname, const void *optval, socklen_t optlen) {
    init();
    if (level == SOL_UDP &&
        ((optname == UDP_SEGMENT && cfg_fail_segment_opt) || (optname == UDP_GRO && cfg_fail_gro_opt))) {
        atomic_fetch_add(&stats[ST_SETSOCKOPT_FAILED], 1);
        errno = ENOPROTOOPT;
        return -1;
    }
    return real_setsockopt(fd, level, optname, optval, optlen);
}

int recvmmsg(int fd, struct mmsghdr *vec, unsigned int vlen, int flags, struct timespec *timeout) {
    init();
    atomic_fetch_add(&stats[ST_RECVMMSG_CALLS], 1);
    if (cfg_recvmmsg_errno) {
        atomic_fetch_add(&stats[ST_RECVMMSG_FAILED], 1);
        errno = cfg_recvmmsg_errno;
        return -1;
    }
    return real_recvmmsg(fd, vec, vlen, flags, timeout);
}
