#!/bin/sh
# Build the harnesses (fast lanes) from files on disk only. Every check rebuilds what it needs
# anyway; this only warms the build caches.
set -e
cd "$(dirname "$0")"
./run --build-only
for d in codecharness aioharness udpharness; do
  (cd "$d" && CARGO_NET_OFFLINE=true cargo build --profile fast --offline >/dev/null 2>&1) || echo "note: $d did not pre-build (its check will report why)"
done
