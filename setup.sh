#!/bin/sh
# Build the harness (fast lane) from files on disk only.
set -e
cd "$(dirname "$0")"
exec ./run --build-only
